"""Verification of one function body against its own contract: paths x clauses -> obligations."""
from __future__ import annotations

import ast
import time
import traceback

import z3

from .contracts import ContractInterp
from .interp import Frame, _Return, exc_is_sub
from .lib import build_lib
from .loader import Repo, Unsupported
from .ops import PyRaise, _and, _b
from .spec import Contract, SpecDB
from .state import Heap, Explorer, Obligation, PathInfeasible, State, Undecided
from .tys import mk_sym
from .values import *  # noqa: F401,F403
from .loops import PathDone


def schema_of(tenv, t, depth=0):
    """JSON description of an input type, for the native replay builder"""
    t = tenv.parse(t)
    k = t[0]
    if k in ("int", "bool", "str", "float", "td", "dt", "none", "opaque", "bytes"):
        return {"k": k}
    if k in ("func", "exc"):
        return {"k": "opaque"}
    if k == "opt":
        return {"k": "opt", "of": schema_of(tenv, t[1], depth)}
    if k == "enum":
        ci = tenv.repo.cls(t[1])
        return {"k": "enum", "cls": t[1], "module": ci.path[:-3].replace("/", ".")}
    if k == "tuple":
        return {"k": "tuple", "items": [schema_of(tenv, x, depth) for x in t[1]]}
    if k == "symobj":
        return {"k": "opaque"}
    if k == "obj":
        ci = tenv.repo.cls(t[1])
        return {"k": "obj", "cls": t[1], "module": ci.path[:-3].replace("/", ".") if ci else None,
                "fields": {f: schema_of(tenv, ft, depth + 1) for f, ft in tenv.fields_of(t[1]).items()}}
    return {"k": "unsupported:" + k}


class FnReport:
    def __init__(self, contract: Contract, finfo):
        self.contract = contract
        self.finfo = finfo
        self.paths = 0
        self.reachable_paths = 0
        self.infeasible = 0
        self.queries = 0
        self.obligations: dict[str, dict] = {}   # name -> {status, solvers, time, failures:[Obligation]}
        self.assumed: set[str] = set()
        self.notes: set[str] = set()
        self.error: str | None = None           # unsupported construct etc. (exit 2)
        self.crash: str | None = None            # checker crash (exit 3)
        self.solver_time = 0.0
        self.wall = 0.0
        self.exits = {"return": 0, "raise": 0}
        self.covered = {}
        self.raised_classes = set()
        self.body_shas = set()
        self.schema = None

    def add(self, ob: Obligation):
        self.queries += 1
        e = self.obligations.setdefault(ob.name, {"status": "discharged", "solvers": set(), "time": 0.0,
                                                  "failures": [], "paths": 0, "where": ob.where})
        e["paths"] += 1
        e["solvers"].add(ob.solver)
        e["time"] += ob.time
        if ob.status == "failed":
            e["status"] = "failed"
            e["failures"].append(ob)
        elif ob.status == "undecided" and e["status"] != "failed":
            e["status"] = "undecided"
            e["failures"].append(ob)

    @property
    def n_obligations(self):
        return len(self.obligations)

    @property
    def n_discharged(self):
        return sum(1 for e in self.obligations.values() if e["status"] == "discharged")

    def failed(self):
        return {k: v for k, v in self.obligations.items() if v["status"] == "failed"}

    def undecided(self):
        return {k: v for k, v in self.obligations.items() if v["status"] == "undecided"}


class FunctionVerifier:
    def __init__(self, repo: Repo, db: SpecDB, contract: Contract, lib=None, extra_hooks=None):
        self.repo = repo
        self.db = db
        self.c = contract
        self.lib = lib or build_lib()
        if contract.harness_src is not None:
            import ast as _ast
            from .loader import FuncInfo
            mod = repo.module(contract.harness_module)
            node = _ast.parse(contract.harness_src).body[0]
            self.finfo = FuncInfo(contract.fn.split("::")[1], contract.harness_module, node, None, mod, [], contract.harness_src)
        else:
            self.finfo = repo.func(contract.fn)
        self.extra_hooks = extra_hooks or {}

    # ------------------------------------------------------------------
    def param_types(self, ip):
        a = self.finfo.node.args
        out = {}
        allp = list(a.posonlyargs) + list(a.args) + list(a.kwonlyargs)
        for p in allp:
            if p.arg in self.c.binds:
                out[p.arg] = self.c.binds[p.arg]
            elif p.arg in ("self",) and self.finfo.cls is not None:
                out[p.arg] = self.finfo.cls.name
            elif p.arg == "cls" and "classmethod" in self.finfo.decorators:
                out[p.arg] = None
            elif p.annotation is not None:
                out[p.arg] = p.annotation
            else:
                raise Unsupported(f"no type for parameter {p.arg} of {self.c.fn}")
        if a.vararg is not None or a.kwarg is not None:
            for p in (a.vararg, a.kwarg):
                if p is not None and p.arg not in self.c.binds:
                    raise Unsupported(f"*{p.arg} needs a sidecar binding")
                if p is not None:
                    out[p.arg] = self.c.binds[p.arg]
        return out

    def run(self, start=None, budget=None) -> FnReport:
        rep = FnReport(self.c, self.finfo)
        t0 = time.time()
        ex = Explorer(start=start, budget=budget)
        rep.pending = []
        try:
            results = ex.run(lambda st: self.run_path(st, rep))
            rep.paths = ex.paths_run
            rep.infeasible = ex.infeasible
            rep.pending = ex.pending
        except Unsupported as exc:
            rep.error = f"unsupported: {exc}"
        except Undecided as exc:
            rep.error = f"undecided: {exc}"
        except z3.Z3Exception as exc:
            rep.crash = f"z3 error: {exc}\n{traceback.format_exc()}"
        except RecursionError:
            rep.error = "unsupported: recursion depth"
        except Exception as exc:  # noqa: BLE001
            rep.crash = f"{type(exc).__name__}: {exc}\n{traceback.format_exc()}"
        rep.wall = time.time() - t0
        return rep

    # ------------------------------------------------------------------ one path
    def run_path(self, st: State, rep: FnReport):
        c = self.c
        ip = ContractInterp(self.repo, self.db, st, self.lib)
        ip.body_shas = rep.body_shas
        ip.current_contract = c
        ip.verified_finfo = self.finfo
        ip.harness_mode = c.harness_src is not None
        st.float_model = c.float_model
        for k, h in self.extra_hooks.items():
            setattr(ip, k, h)
        fi = self.finfo
        # ---- symbolic inputs
        pts = self.param_types(ip)
        args = {}
        for p, t in pts.items():
            if t is None:
                args[p] = VClass(fi.cls.name)
            else:
                args[p] = mk_sym(st, ip.tenv, t, p)
        if rep.schema is None:
            try:
                rep.schema = {p: schema_of(ip.tenv, t) for p, t in {**pts, **{k: v for k, v in c.binds.items() if k not in pts}}.items() if t is not None}
            except Exception:  # noqa: BLE001
                rep.schema = {}
        defining = None
        free = {k: v for k, v in c.binds.items() if k not in pts}
        if free:
            defining = Frame(fi, None, cls=fi.cls)
            for k, t in free.items():
                defining.vars[k] = mk_sym(st, ip.tenv, t, k)
        # ---- ghost state
        for g, t in c.ghost_init.items():
            if t == "events":
                st.ghost[g] = ip.new_list([])
            else:
                st.ghost[g] = mk_sym(st, ip.tenv, t, "ghost." + g)
        if c.setup is not None:
            c.setup(ip, args)
        env = dict(args)
        env.update({"arg_" + k: v for k, v in args.items()})
        if defining is not None:
            env.update(defining.vars)
        for k, expr in c.lets.items():
            env[k] = ip.eval_spec_expr(expr, env)
        for r in c.requires:
            st.assume(ip.spec_bool(r, env))
        wanted = set(c.options.get("axioms", []))
        for nm, vars_, expr in self.db.axioms:
            if nm in wanted and not vars_:
                st.assume(ip.spec_bool(expr, env))       # closed assumed facts about uninterpreted spec functions
                st.assumed_used.add(f"axiom {nm}: {expr}")
        # objects named by frame locations exist before the pre-state snapshot (lazily created map entries)
        for loc in list(c.modifies) + [l for r in c.raises for l in r.modifies]:
            try:
                ip.location_keys([loc], env)
            except (Unsupported, PyRaise, KeyError):
                pass
        old = st.snapshot()
        ip.verify_env = env
        ip.verify_old = old
        clock0 = len(st.clock_terms)
        if c.yield_inv or c.on_cancel or c.cancel_at_yield or c.shared:
            from .yieldpts import make_await_hook
            ip.await_hook = make_await_hook(self, env, old)
        # ---- run the body
        result = None
        raised = None
        try:
            try:
                result = ip.run_body(fi, defining, [], {}, preset=dict(args))
            except PyRaise as pr:
                raised = pr.exc
            except PathDone:
                if st.feasible(z3.BoolVal(True)):
                    rep.reachable_paths += 1
                    for ob in st.obligations:
                        rep.add(ob)
                rep.solver_time += st.solver_time
                return None
        finally:
            rep.assumed |= st.assumed_used
            rep.notes |= set(st.notes)
        # ---- bind clock names
        readings = st.clock_terms[clock0:]
        for i, cn in enumerate(c.clock):
            if i < len(readings):
                env[cn] = VInt(readings[i], "dt")
            else:
                env[cn] = VInt(st.read_clock_us(), "dt")
        for g in c.ghost_init:
            if c.ghost_init[g] == "events":
                old_items = old[0][(st.ghost[g].ref, "items")] if (st.ghost[g].ref, "items") in old[0] else ()
                env[g] = VTuple(list(st.heap[(st.ghost[g].ref, "items")])[len(old_items):])
        # ---- reachability of this path end
        if st.feasible(z3.BoolVal(True)):
            rep.reachable_paths += 1
        else:
            raise PathInfeasible()
        where = f"{fi.path}:{fi.node.lineno}"
        if raised is None:
            rep.exits["return"] += 1
            env["result"] = result
            for nm, (_t, w) in c.fresh.items():
                try:
                    env[nm] = ip.eval_spec_expr(w, env, old)
                except (PyRaise, Unsupported):
                    # no witness on this path: the effects check decides whether an event is missing
                    env[nm] = mk_sym(st, ip.tenv, _t, st.fresh_name(nm))
            for rr in c.raises:
                if rr.mode == "iff":
                    w = self.pre_bool(ip, rr.when, env, old)
                    ip.check(f"raises-iff:{rr.exc}", z3.Not(w), where=f"returns normally although `{rr.when}`")
            if c.result_expr is not None:
                ip.check("ensures:result_is", _b(ip.identical(result, ip.eval_spec_expr(c.result_expr, env, old)))
                         if not isinstance(result, (VInt, VStr, VBool)) else _b(ip.eq(result, ip.eval_spec_expr(c.result_expr, env, old))),
                         where=f"result is {c.result_expr}")
            for name, expr in c.cuts.items():
                t = ip.spec_bool(expr, env, old)
                if ip.check(f"cut:{name}", t, where=expr):
                    st.assume(t)            # a proved intermediate fact, available to the following steps
            import fnmatch as _fn
            for name, expr in c.ensures.items():
                if any(_fn.fnmatch(name, pat) for pat in c.bounded_clauses):
                    continue        # decided by the bounded stand-in only (labelled bounded, never counted as proved)
                try:
                    t = ip.spec_bool(expr, env, old)
                except PyRaise as pr:
                    raise Unsupported(f"clause {name} raised {pr.exc.cls} during evaluation")
                ip.check(f"ensures:{name}", t, where=expr)
            self.check_effects(ip, c.effects, env, old, "effects", c)
            self.check_frame(ip, c.modifies, env, old)
            for cname, cexpr in c.covers.items():
                if rep.covered.get(cname) == "sat":
                    continue
                try:
                    r = st._check(ip.spec_bool(cexpr, env, old))
                except (PyRaise, Unsupported):
                    r = "unsat"
                if r == "sat" or (r == "unknown" and rep.covered.get(cname) != "sat"):
                    rep.covered[cname] = r
                else:
                    rep.covered.setdefault(cname, "unsat")
        else:
            rep.exits["raise"] += 1
            rep.raised_classes.add(raised.cls)
            match = None
            cands = [x for x in c.raises if exc_is_sub(raised.cls, x.exc)]
            if len(cands) == 1:
                match = cands[0]
            else:
                for rr in cands:
                    if st.must(self.pre_bool(ip, rr.when, env, old)):
                        match = rr
                        break
            if match is None:
                cands = [x for x in c.raises if exc_is_sub(raised.cls, x.exc)]
                if cands:
                    # several clauses for this class: one of their conditions must hold
                    ws = [self.pre_bool(ip, x.when, env, old) for x in cands]
                    ip.check(f"raises-when:{raised.cls}", z3.Or(*ws), where="raised outside every declared condition")
                else:
                    msg = ""
                    if raised.msg is not None and isinstance(raised.msg, VStr):
                        msg = str(raised.msg.concrete() or "")
                    ip.check(f"no-unexpected-exception:{raised.cls}", z3.BoolVal(False),
                             where=f"{raised.cls}({msg}) escapes; not declared in raises")
            else:
                w = self.pre_bool(ip, match.when, env, old)
                ip.check(f"raises-when:{match.exc}", w, where=f"raised although not `{match.when}`")
                env2 = dict(env)
                if match.bind:
                    env2[match.bind] = raised
                for nm, (_t, wexpr) in match.fresh.items():
                    try:
                        env2[nm] = ip.eval_spec_expr(wexpr, env2, old)
                    except (PyRaise, Unsupported):
                        env2[nm] = mk_sym(st, ip.tenv, _t, st.fresh_name(nm))
                for name, expr in match.ensures.items():
                    ip.check(f"raises-ensures:{match.exc}:{name}", ip.spec_bool(expr, env2, old), where=expr)
                self.check_effects(ip, match.effects, env2, old, f"raises-effects:{match.exc}", c)
                self.check_frame(ip, match.modifies, env2, old, tag=f"raises-frame:{match.exc}")
        for ob in st.obligations:
            ob.inputs = None
            rep.add(ob)
        rep.solver_time += st.solver_time
        return None

    def pre_bool(self, ip, expr, env, old):
        """a condition over the pre-state (raises.when)"""
        st = ip.st
        saved = (st.heap, st.ghost)
        st.heap, st.ghost = Heap(old[0]), dict(old[1])
        try:
            return ip.spec_bool(expr, env, old)
        finally:
            st.heap, st.ghost = saved

    # ------------------------------------------------------------------ effects / frame
    def check_effects(self, ip, effects, env, old, tag, c):
        if not c.trace_exact:
            return
        st = ip.st
        lists = [g for g, t in c.ghost_init.items() if t == "events"]
        for g in lists:
            expected = []
            for eff in effects:
                if eff[0] != g:
                    continue
                if len(eff) > 2 and not st.branch(self.pre_bool(ip, eff[2], env, old)):
                    continue
                expected.append(ip.eval_spec_expr(eff[1], env, old))
            actual = env[g].items
            if len(expected) != len(actual):
                got = [self._ev_tag(a) for a in actual]
                ip.check(f"{tag}:{g}", z3.BoolVal(False),
                         where=f"expected {len(expected)} event(s), path produced {got}")
            else:
                t = _and([ip.eq(a, b) for a, b in zip(expected, actual)])
                ip.check(f"{tag}:{g}", _b(t), where=f"events {[e[1] for e in effects if e[0] == g]}")

    def _ev_tag(self, ev):
        if isinstance(ev, VTuple) and ev.items and isinstance(ev.items[0], VStr):
            return ev.items[0].concrete()
        return "?"

    def check_frame(self, ip, modifies, env, old, tag="frame"):
        st = ip.st
        old_heap, old_ghost = old
        saved = (st.heap, st.ghost)
        # locations are resolved in the pre-state
        st.heap, st.ghost = Heap(old_heap), dict(old_ghost)
        try:
            allowed = ip.location_keys(modifies, env)
        finally:
            st.heap, st.ghost = saved
        bad = []
        ghost_refs = {v.ref for v in old_ghost.values() if isinstance(v, (VList, VDict))}
        for key, ov in old_heap.items():
            nv = st.heap.get(key)
            if nv is ov or key in allowed or key[0] in ghost_refs or key[1] == "cache":
                continue
            if nv is None:
                bad.append((key, None))
                continue
            bad.append((key, self._same(ip, ov, nv)))
        for g, ov in old_ghost.items():
            nv = st.ghost.get(g)
            if nv is ov or ("ghost", g) in allowed:
                continue
            bad.append((("ghost", g), self._same(ip, ov, nv)))
        terms = []
        desc = []
        for key, t in bad:
            if t is None or t is False:
                terms.append(z3.BoolVal(False))
                desc.append(str(key))
            elif t is True:
                continue
            else:
                terms.append(t)
                desc.append(str(key))
        if terms:
            ip.check(tag, z3.And(*terms), where=f"locations possibly changed outside modifies: {self._describe(ip, desc)}")
        else:
            ip.check(tag, z3.BoolVal(True), where="nothing outside modifies changed")

    def _describe(self, ip, desc):
        return ", ".join(desc[:6])

    def _same(self, ip, ov, nv):
        if isinstance(ov, tuple) or isinstance(ov, dict):
            if isinstance(ov, tuple) and isinstance(nv, tuple) and len(ov) == len(nv):
                return _and([self._same(ip, a, b) for a, b in zip(ov, nv)])
            if isinstance(ov, dict) and isinstance(nv, dict) and set(ov) == set(nv):
                return _and([self._same(ip, ov[k], nv[k]) for k in ov])
            return False
        if z3.is_expr(ov) and z3.is_expr(nv):
            if ov.eq(nv):
                return True
            return ov == nv
        if isinstance(ov, V) and isinstance(nv, V):
            if ov is nv:
                return True
            if isinstance(ov, (VList, VDict, VSeq, VSet, VMap)):
                return type(ov) is type(nv) and ov.ref == nv.ref
            try:
                return ip.identical(ov, nv) if isinstance(ov, VObj) else ip.eq(ov, nv)
            except Unsupported:
                return False
        return False
