"""Yield points (DESIGN.md section 1, 2.4): between two awaits a task runs atomically, so at each
`await` of the function under contract

  * the function's yield invariant must hold (obligation),
  * CancelledError may be thrown there (explored as an exceptional path when the contract asks for it),
  * other tasks run: the declared shared locations are havocked under the rely conditions and the
    invariant is assumed again.

The hook is called by apply_contract before and after the effect of an awaited callee whose
contract says it may suspend.
"""
from __future__ import annotations

import z3

from .ops import PyRaise
from .values import VExc, Opaque


def make_await_hook(verifier, env, old_entry):
    c = verifier.c
    counter = {"n": 0}

    def hook(ip, node, callee, phase):
        st = ip.st
        counter["n"] += 1
        k = counter["n"]
        line = getattr(node, "lineno", "?")
        short = callee.fn.split("::")[-1]
        tag = f"await#{k}@{line}:{short}:{phase}"
        cur_env = dict(env)
        # locals are visible through the frames only for loop invariants; yield invariants talk about
        # the object state and ghosts
        for name, clause in c.yield_inv.items():
            ip.check(f"yield-inv:{name}", ip.spec_bool(clause, cur_env, old_entry), where=f"{tag}: {clause}")
        if c.cancel_at_yield:
            if st.choose(2, f"cancel-{k}") == 1:
                st.notes.append(f"CancelledError delivered at {tag}")
                st.cancel_point = tag
                raise PyRaise(VExc("CancelledError", term=st.fresh("exc", Opaque)))
        if c.shared:
            n_pc = len(st.pc)
            before = st.snapshot()
            ip.havoc(c.shared, cur_env)
            for r in c.rely:
                st.assume(ip.spec_bool(r, cur_env, before))
            for name, clause in c.yield_inv.items():
                st.assume(ip.spec_bool(clause, cur_env, old_entry))
            if not st.feasible(z3.BoolVal(True)):
                from .state import PathInfeasible, Undecided
                was = st.was_feasible_before(n_pc)
                if was == "unsat":
                    raise PathInfeasible()       # already infeasible before the interference was applied
                if was == "unknown":
                    raise Undecided(f"cannot tell whether the path was feasible before {tag}")
                import os
                from .loader import Unsupported
                try:
                    d = os.path.join(os.path.dirname(os.path.dirname(os.path.abspath(__file__))), "out", "undecided")
                    os.makedirs(d, exist_ok=True)
                    with open(os.path.join(d, f"rely_unsat_{os.getpid()}.smt2"), "w") as fh:
                        fh.write(st.solver.to_smt2())
                except Exception:  # noqa: BLE001
                    pass
                raise Unsupported(f"rely/invariant of {c.fn} unsatisfiable at {tag}")

    return hook
