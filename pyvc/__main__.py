from .cli import main
raise SystemExit(main())
