"""Command line: python3-vt -m pyvc check <PROPERTY> [--tier quick|thorough] [--repo PATH]"""
from __future__ import annotations

import argparse
import os
import sys

HERE = os.path.dirname(os.path.dirname(os.path.abspath(__file__)))
sys.path.insert(0, HERE)


def main(argv=None):
    ap = argparse.ArgumentParser(prog="pyvc")
    sub = ap.add_subparsers(dest="cmd", required=True)
    c = sub.add_parser("check")
    c.add_argument("prop")
    c.add_argument("--tier", default=os.environ.get("VERIF_TIER", "quick"))
    c.add_argument("--repo", default="/repo")
    c.add_argument("--fn", default=None, help="only functions whose key contains this text (debugging)")
    c.add_argument("-v", "--verbose", action="store_true")
    r = sub.add_parser("replay")
    r.add_argument("path")
    args = ap.parse_args(argv)
    if args.cmd == "check":
        from .runner import run_check
        return run_check(args.prop, args.tier, args.repo, only=args.fn, verbose=args.verbose)
    if args.cmd == "replay":
        from .replay import run_replay
        return run_replay(args.path)
    return 3
