"""Value model (DESIGN.md 2.3).  Every symbolic value is a small Python wrapper around z3 terms."""
from __future__ import annotations

import z3

# ---------------------------------------------------------------- z3 sorts
Opaque = z3.DeclareSort("Opaque")
_obj_sorts: dict[str, z3.SortRef] = {}


def obj_sort(cls: str) -> z3.SortRef:
    if cls not in _obj_sorts:
        _obj_sorts[cls] = z3.DeclareSort("Obj_" + cls)
    return _obj_sorts[cls]


# datetime range in microseconds since 0001-01-01 (naive datetimes)
DT_MIN_US = 0
DT_MAX_US = 315537897599999999  # datetime.max - datetime.min in microseconds
TD_MAX_US = 86399999999999999999  # timedelta.max in microseconds (999999999 days ...)
TD_MAX_DAYS_US = 999999999 * 86400 * 10**6
EPOCH_US = 62135596800 * 10**6  # 1970-01-01 as microseconds since 0001-01-01


class V:
    """base class"""

    kind = "?"


class VInt(V):
    # kind: 'int' | 'td' (microseconds) | 'dt' (microseconds since datetime.min)
    def __init__(self, term, kind="int"):
        self.term = z3.IntVal(term) if isinstance(term, int) else term
        self.kind = kind

    def __repr__(self):
        return f"V{self.kind}({self.term})"


class VBool(V):
    kind = "bool"

    def __init__(self, term):
        self.term = z3.BoolVal(term) if isinstance(term, bool) else term

    def __repr__(self):
        return f"Vbool({self.term})"


class VReal(V):
    kind = "float"

    def __init__(self, term):
        if isinstance(term, (int, float)):
            term = z3.RealVal(term)
        self.term = term

    def __repr__(self):
        return f"Vfloat({self.term})"


class VStr(V):
    kind = "str"

    def __init__(self, term):
        self.term = z3.StringVal(term) if isinstance(term, str) else term

    def concrete(self):
        t = z3.simplify(self.term)
        if z3.is_string_value(t):
            return t.as_string()
        return None

    def __repr__(self):
        return f"Vstr({self.term})"


class VBytes(V):
    """bytes modelled as an (abstract) string of code units; only decode()/encode() round trips."""
    kind = "bytes"

    def __init__(self, term):
        self.term = term


class VNoneT(V):
    kind = "none"

    def __repr__(self):
        return "VNone"


VNone = VNoneT()


class VOpt(V):
    kind = "opt"

    def __init__(self, isnone, val: V):
        self.isnone = isnone
        self.val = val

    def __repr__(self):
        return f"VOpt({self.isnone}, {self.val})"


class VObj(V):
    kind = "obj"

    def __init__(self, cls: str, ref):
        self.cls = cls
        self.ref = ref  # int -> heap object; z3 term -> immutable symbolic object (fields are UFs)

    @property
    def symbolic(self):
        return not isinstance(self.ref, int)

    def __repr__(self):
        return f"VObj({self.cls}#{self.ref})"


class VEnum(V):
    kind = "enum"

    def __init__(self, cls: str, term):
        self.cls = cls
        self.term = z3.IntVal(term) if isinstance(term, int) else term

    def __repr__(self):
        return f"VEnum({self.cls},{self.term})"


class VOpaque(V):
    kind = "opaque"

    def __init__(self, term, tag=None):
        self.term = term
        self.tag = tag  # e.g. name of the callable contract for user callables

    def __repr__(self):
        return f"VOpaque({self.term})"


class VTuple(V):
    kind = "tuple"

    def __init__(self, items):
        self.items = list(items)

    def __repr__(self):
        return f"VTuple{tuple(self.items)}"


class VList(V):
    """mutable list with a concrete number of (symbolic) items; content lives in the heap."""
    kind = "list"

    def __init__(self, ref: int):
        self.ref = ref


class VDict(V):
    """mutable dict with concrete (python str/int) keys, insertion ordered; content lives in the heap."""
    kind = "dict"

    def __init__(self, ref: int):
        self.ref = ref


class VSeq(V):
    """mutable sequence with symbolic content (z3 Seq term in the heap under (ref,'seq'))."""
    kind = "seq"

    def __init__(self, ref: int, elem):
        self.ref = ref
        self.elem = elem  # element type tuple


class VArr(V):
    """immutable sequence as (length, Array(Int -> T)): used for input sequences that are only indexed / iterated
    (quantified invariants over arrays are far easier for the solvers than over z3 sequences)"""
    kind = "arr"

    def __init__(self, ref, elem):
        self.ref = ref
        self.elem = elem


class VSet(V):
    """mutable set, content = z3 Array(elem -> Bool) in the heap under (ref,'set')."""
    kind = "set"

    def __init__(self, ref: int, elem):
        self.ref = ref
        self.elem = elem


class VMap(V):
    """mutable dict with symbolic keys: (ref,'dom') Array(K->Bool), (ref,'val') Array(K->V)."""
    kind = "map"

    default = False
    ordered = False

    def __init__(self, ref: int, key, val):
        self.ref = ref
        self.key = key
        self.val = val


class VExc(V):
    """exception value.  cls is a class name; anysub=True means 'cls or any subclass of it'."""
    kind = "exc"

    def __init__(self, cls: str, anysub=False, fields=None, term=None, msg=None):
        self.cls = cls
        self.anysub = anysub
        self.fields = fields or {}
        self.term = term  # Opaque identity (for `exception=exc` comparisons)
        self.msg = msg

    def __repr__(self):
        return f"VExc({self.cls}{'+' if self.anysub else ''})"


class VFunc(V):
    kind = "func"


class VBuiltin(VFunc):
    def __init__(self, name, fn):
        self.name = name
        self.fn = fn  # fn(interp, args, kwargs, node) -> V

    def __repr__(self):
        return f"VBuiltin({self.name})"


class VClosure(VFunc):
    def __init__(self, finfo, frame, name=None):
        self.finfo = finfo  # loader.FuncInfo
        self.frame = frame  # defining Frame (or None for top-level)
        self.name = name or finfo.qualname


class VLambda(VFunc):
    def __init__(self, node, frame):
        self.node = node
        self.frame = frame


class VMethod(VFunc):
    def __init__(self, obj: V, cls: str, name: str, finfo=None, start_after=None):
        self.obj = obj
        self.cls = cls          # class where lookup starts (dynamic class of obj or super target)
        self.name = name
        self.finfo = finfo
        self.start_after = start_after


class VContractFn(VFunc):
    """a callable known only through a contract (assumed or verified elsewhere)."""

    def __init__(self, cname: str, bound: dict | None = None):
        self.cname = cname
        self.bound = bound or {}

    def __repr__(self):
        return f"VContractFn({self.cname})"


class VPartial(VFunc):
    def __init__(self, fn: V, args, kwargs):
        self.fn = fn
        self.args = list(args)
        self.kwargs = dict(kwargs)


class VCoro(V):
    """an un-awaited coroutine object: calling an async def (or async contract) creates it."""
    kind = "coro"

    def __init__(self, fn: V, args, kwargs, node=None, label=None):
        self.fn = fn
        self.args = list(args)
        self.kwargs = dict(kwargs)
        self.node = node
        self.label = label


class VByteArray(V):
    """bytearray: mutable bytes (content = z3 String under (ref,'content')); class_level marks an object created by a
    class-body assignment, i.e. shared by every instance of the class"""
    kind = "bytearray"

    def __init__(self, ref, class_level=False):
        self.ref = ref
        self.class_level = class_level


class VRaw(V):
    """a raw z3 term of the abstract Redis store, visible to specifications only (equality)"""
    kind = "raw"

    def __init__(self, term):
        self.term = term


class VStar(V):
    """`*expr` in a call where expr is a symbolic iterable (passed through to contracts as one item)"""
    kind = "star"

    def __init__(self, value):
        self.value = value


class VClass(V):
    kind = "class"

    def __init__(self, name: str):
        self.name = name

    def __repr__(self):
        return f"VClass({self.name})"


class VModule(V):
    kind = "module"

    def __init__(self, name: str, attrs: dict):
        self.name = name
        self.attrs = attrs


class VSuper(V):
    kind = "super"

    def __init__(self, obj: VObj, after_cls: str):
        self.obj = obj
        self.after_cls = after_cls


# ---------------------------------------------------------------- types
def T(*a):
    return tuple(a)


T_INT = ("int",)
T_BOOL = ("bool",)
T_STR = ("str",)
T_FLOAT = ("float",)
T_TD = ("td",)
T_DT = ("dt",)
T_NONE = ("none",)
T_OPAQUE = ("opaque",)
T_BYTES = ("bytes",)


def sort_of_type(t) -> z3.SortRef:
    k = t[0]
    if k in ("int", "td", "dt", "enum"):
        return z3.IntSort()
    if k == "bool":
        return z3.BoolSort()
    if k == "float":
        return z3.RealSort()
    if k in ("str", "bytes"):
        return z3.StringSort()
    if k in ("obj", "symobj"):
        return obj_sort(t[1])
    if k == "seq":
        return z3.SeqSort(sort_of_type(t[1] if t[1][0] != "symobj" else ("obj", t[1][1])))
    if k == "opaque" or k == "func":
        return Opaque
    raise TypeError(f"no first-order sort for type {t}")


def wrap(t, term) -> V:
    """wrap a z3 term of sort_of_type(t) as a value of type t"""
    k = t[0]
    if k in ("int", "td", "dt"):
        return VInt(term, k)
    if k == "enum":
        return VEnum(t[1], term)
    if k == "bool":
        return VBool(term)
    if k == "float":
        return VReal(term)
    if k == "str":
        return VStr(term)
    if k == "bytes":
        return VBytes(term)
    if k in ("obj", "symobj"):
        return VObj(t[1], term)
    if k == "opaque":
        return VOpaque(term)
    if k == "func":
        return VOpaque(term, tag=t[1] if len(t) > 1 else None)
    raise TypeError(f"cannot wrap {t}")


def term_of(v: V):
    if isinstance(v, (VInt, VBool, VReal, VStr, VEnum, VOpaque, VBytes)):
        return v.term
    if isinstance(v, VObj) and v.symbolic:
        return v.ref
    if isinstance(v, VExc) and v.term is not None:
        return v.term
    raise TypeError(f"value {v!r} has no single z3 term")
