"""Runs every obligation serving one property; decides the exit code; writes evidence."""
from __future__ import annotations

import json
import os
import sys
import time
import traceback
from concurrent.futures import ProcessPoolExecutor

HERE = os.path.dirname(os.path.dirname(os.path.abspath(__file__)))


def load(repo_root):
    from contracts import load_all
    from .loader import Repo
    from .spec import SpecDB
    repo = Repo(repo_root)
    repo.load_all("repid")
    db = SpecDB()
    load_all(db)
    return repo, db


def _verify_one(job):
    """worker: verify one function (runs in a subprocess)"""
    repo_root, fn_key = job[0], job[1]
    extra_requires = job[2] if len(job) > 2 else []
    sys.setrecursionlimit(10000)
    from .verify import FunctionVerifier
    from .loader import Unsupported
    repo, db = load(repo_root)
    variant = None
    if "@" in fn_key:
        fn_key, variant = fn_key.split("@", 1)
    c = db.contracts[fn_key]
    if variant is not None:
        c.binds = {**c.binds, **c.variants[variant]}
    if extra_requires:
        c.requires = list(c.requires) + list(extra_requires)
    t0 = time.time()
    try:
        fv = FunctionVerifier(repo, db, c)
        rep = fv.run()
    except Unsupported as exc:
        return {"fn": fn_key, "error": f"unsupported: {exc}", "crash": None, "obligations": {}, "paths": 0,
                "reachable": 0, "queries": 0, "assumed": [], "wall": time.time() - t0, "solver_time": 0.0, "sha": None,
                "notes": [], "exits": {}}
    except Exception as exc:  # noqa: BLE001
        return {"fn": fn_key, "error": None, "crash": f"{type(exc).__name__}: {exc}\n{traceback.format_exc()}",
                "obligations": {}, "paths": 0, "reachable": 0, "queries": 0, "assumed": [], "wall": time.time() - t0,
                "solver_time": 0.0, "sha": None, "notes": [], "exits": {}}
    obs = {}
    import fnmatch
    prop = job[3] if len(job) > 3 else None
    for name, e in rep.obligations.items():
        if prop is not None and c.clause_props:
            owners = [ps for pat, ps in c.clause_props.items() if fnmatch.fnmatch(name, pat)]
            if owners and not any(prop in ps for ps in owners):
                continue
        obs[name] = {
            "status": e["status"], "solvers": sorted(e["solvers"]), "time": round(e["time"], 4), "paths": e["paths"],
            "where": e["where"],
            "failures": [{"detail": f.detail, "model": f.model, "path": f.path, "smt2": f.smt2, "where": f.where,
                          "status": f.status}
                         for f in e["failures"][:3]],
        }
    if variant is not None:
        fn_key = f"{fn_key}@{variant}"
    return {"fn": fn_key, "error": rep.error, "crash": rep.crash, "obligations": obs, "paths": rep.paths,
            "reachable": rep.reachable_paths, "queries": rep.queries, "assumed": sorted(rep.assumed),
            "wall": round(rep.wall, 3), "solver_time": round(rep.solver_time, 3), "sha": rep.finfo.sha,
            "notes": sorted(rep.notes), "exits": rep.exits, "schema": rep.schema,
            "unreached_raises": [r.exc for r in c.raises if not any(_sub(x, r.exc) for x in rep.raised_classes)]
            if not (rep.error or rep.crash) else [],
            "clock": list(c.clock), "ensures": dict(c.ensures), "raises": {r.exc: r.when for r in c.raises}}


def _sub(a, b):
    from .interp import exc_is_sub
    return exc_is_sub(a, b)


def _lemma_one(job):
    repo_root, idx = job
    from .lemmas import prove_lemma
    repo, db = load(repo_root)
    return prove_lemma(repo, db, idx)


def run_check(prop, tier, repo_root, only=None, verbose=False):
    from .report import finish
    t0 = time.time()
    sys.path.insert(0, HERE)
    try:
        repo, db = load(repo_root)
    except Exception as exc:  # noqa: BLE001
        print(f"CHECKER-ERROR property={prop}: cannot load: {exc}")
        traceback.print_exc()
        return 3
    keys = [k for k, c in db.contracts.items() if prop in c.serves and not c.assumed and "::" in k]
    if only:
        keys = [k for k in keys if only in k]
    lemma_idx = [i for i, l in enumerate(db.lemmas) if prop in l.get("serves", [])]
    jobs = []
    for k in keys:
        vs = db.contracts[k].variants
        if vs:
            jobs += [(repo_root, f"{k}@{v}", [], prop) for v in vs]
        else:
            jobs.append((repo_root, k, [], prop))
    workers = min(16, max(1, len(jobs) + len(lemma_idx)))
    results, lemma_results = [], []
    if os.environ.get("PYVC_SERIAL") or workers == 1:
        results = [_verify_one(j) for j in jobs]
        lemma_results = [_lemma_one((repo_root, i)) for i in lemma_idx]
    else:
        with ProcessPoolExecutor(max_workers=workers) as pool:
            futs = [pool.submit(_verify_one, j) for j in jobs]
            lfuts = [pool.submit(_lemma_one, (repo_root, i)) for i in lemma_idx]
            results = [f.result() for f in futs]
            lemma_results = [f.result() for f in lfuts]
    def reverify(fn_key, obname, case):
        """re-run one function under the negated case predicate of a known finding"""
        if fn_key.startswith("lemma::"):
            return "failed"
        res = _verify_one((repo_root, fn_key, [f"not ({case})"], prop))
        if res["error"] or res["crash"]:
            return "undecided"
        e = res["obligations"].get(obname)
        if e is None:
            return "discharged"
        return e["status"]

    extra = dict(db.meta.get(prop, {}))
    if tier == "thorough":
        from .thorough import run_thorough
        extra.update(run_thorough(prop, repo_root, db, keys) or {})
    return finish(prop, tier, repo_root, db, results, lemma_results, time.time() - t0, verbose=verbose,
                  reverify=reverify, extra=extra)
