"""Runs every obligation serving one property; decides the exit code; writes evidence."""
from __future__ import annotations

import json
import os
import sys
import time
import traceback
from concurrent.futures import ProcessPoolExecutor

HERE = os.path.dirname(os.path.dirname(os.path.abspath(__file__)))


def load(repo_root):
    from contracts import load_all
    from .loader import Repo
    from .spec import SpecDB
    repo = Repo(repo_root)
    repo.load_all("repid")
    db = SpecDB()
    load_all(db)
    return repo, db


def _verify_one(job):
    """worker: verify one function (runs in a subprocess)"""
    repo_root, fn_key = job[0], job[1]
    extra_requires = job[2] if len(job) > 2 else []
    start = job[4] if len(job) > 4 else None
    budget = job[5] if len(job) > 5 else None
    sys.setrecursionlimit(10000)
    from .verify import FunctionVerifier
    from .loader import Unsupported
    repo, db = load(repo_root)
    variant = None
    if "@" in fn_key:
        fn_key, variant = fn_key.split("@", 1)
    c = db.contracts[fn_key]
    if variant is not None:
        v = dict(c.variants[variant])
        override = v.pop("__override__", None)      # a variant may also replace contract fields (a second spec of the same body)
        c.binds = {**c.binds, **v}
        c.active_variant = variant
        for k, val in (override or {}).items():
            if not hasattr(c, k):
                raise ValueError(f"variant {variant} of {fn_key}: unknown contract field {k}")
            setattr(c, k, val)
    if extra_requires:
        c.requires = list(c.requires) + list(extra_requires)
    t0 = time.time()
    from . import smt as _smt
    sec0 = dict(_smt.SECOND)
    try:
        fv = FunctionVerifier(repo, db, c)
        rep = fv.run(start=start, budget=budget)
    except Unsupported as exc:
        return {"fn": fn_key, "error": f"unsupported: {exc}", "crash": None, "obligations": {}, "paths": 0,
                "reachable": 0, "queries": 0, "assumed": [], "wall": time.time() - t0, "solver_time": 0.0, "sha": None,
                "notes": [], "exits": {}}
    except Exception as exc:  # noqa: BLE001
        return {"fn": fn_key, "error": None, "crash": f"{type(exc).__name__}: {exc}\n{traceback.format_exc()}",
                "obligations": {}, "paths": 0, "reachable": 0, "queries": 0, "assumed": [], "wall": time.time() - t0,
                "solver_time": 0.0, "sha": None, "notes": [], "exits": {}}
    obs = {}
    import fnmatch
    prop = job[3] if len(job) > 3 else None
    for name, e in rep.obligations.items():
        if prop is not None and c.clause_props:
            owners = [ps for pat, ps in c.clause_props.items() if fnmatch.fnmatch(name, pat)]
            if owners and not any(prop in ps for ps in owners):
                continue
        obs[name] = {
            "status": e["status"], "solvers": sorted(e["solvers"]), "time": round(e["time"], 4), "paths": e["paths"],
            "where": e["where"],
            "failures": [{"detail": f.detail, "model": f.model, "path": f.path, "smt2": f.smt2, "where": f.where,
                          "status": f.status}
                         for f in e["failures"][:3]],
        }
    if variant is not None:
        fn_key = f"{fn_key}@{variant}"
    return {"fn": fn_key, "error": rep.error, "crash": rep.crash, "obligations": obs, "paths": rep.paths,
            "reachable": rep.reachable_paths, "queries": rep.queries, "assumed": sorted(rep.assumed),
            "wall": round(rep.wall, 3), "solver_time": round(rep.solver_time, 3), "sha": rep.finfo.sha,
            "notes": sorted(rep.notes), "exits": rep.exits, "schema": rep.schema,
            "unreached_raises": [],
            "clock": list(c.clock), "ensures": dict(c.ensures), "raises": {r.exc: r.when for r in c.raises},
            "pending": getattr(rep, "pending", []), "raised_classes": sorted(rep.raised_classes), "body_shas": sorted(rep.body_shas),
            "covered": dict(rep.covered), "covers": list(c.covers),
            "second_opinion": {k: _smt.SECOND[k] - sec0.get(k, 0) for k in _smt.SECOND},
            "declared_raises": [r.exc for r in c.raises]}


PATH_BUDGET = int(os.environ.get("PYVC_PATH_BUDGET", "3"))


def _merge(merged, res):
    key = res["fn"]
    cur = merged.get(key)
    if cur is None:
        merged[key] = res
        return
    for name, e in res["obligations"].items():
        c = cur["obligations"].get(name)
        if c is None:
            cur["obligations"][name] = e
            continue
        c["paths"] += e["paths"]
        c["time"] = round(c["time"] + e["time"], 4)
        c["solvers"] = sorted(set(c["solvers"]) | set(e["solvers"]))
        c["failures"] = (c["failures"] + e["failures"])[:3]
        rank = {"discharged": 0, "undecided": 1, "failed": 2}
        if rank[e["status"]] > rank[c["status"]]:
            c["status"] = e["status"]
            c["where"] = e["where"]
    for k in ("paths", "reachable", "queries"):
        cur[k] += res[k]
    cur["wall"] = round(max(cur["wall"], res["wall"]), 3)
    cur["solver_time"] = round(cur["solver_time"] + res["solver_time"], 3)
    cur["assumed"] = sorted(set(cur["assumed"]) | set(res["assumed"]))
    cur["notes"] = sorted(set(cur["notes"]) | set(res["notes"]))
    cur["error"] = cur["error"] or res["error"]
    cur["crash"] = cur["crash"] or res["crash"]
    cur["raised_classes"] = sorted(set(cur.get("raised_classes", [])) | set(res.get("raised_classes", [])))
    cur["body_shas"] = sorted(set(cur.get("body_shas", [])) | set(res.get("body_shas", [])))
    for k, v in (res.get("exits") or {}).items():
        cur.setdefault("exits", {})[k] = cur.get("exits", {}).get(k, 0) + v
    cur["schema"] = cur.get("schema") or res.get("schema")
    for k, v in (res.get("second_opinion") or {}).items():
        cur.setdefault("second_opinion", {})[k] = cur.get("second_opinion", {}).get(k, 0) + v
    rank = {"sat": 2, "unknown": 1, "unsat": 0}
    for k, v in (res.get("covered") or {}).items():
        if rank[v] >= rank.get(cur.setdefault("covered", {}).get(k, "unsat"), 0):
            cur["covered"][k] = v


def _finalize(r):
    """vacuity guards and cover of the declared exceptional exits, over all paths of the function"""
    if r["error"] is None and r["crash"] is None:
        if r["reachable"] == 0:
            r["crash"] = "vacuous: no path is satisfiable under the preconditions"
        elif not r["obligations"]:
            r["crash"] = "vacuous: zero obligations generated"
    if not (r["error"] or r["crash"]):
        missing = [k for k in r.get("covers", []) if (r.get("covered") or {}).get(k, "unsat") == "unsat"]
        if missing:
            r["crash"] = f"vacuity guard: covers never reachable on any normal return: {missing}"
    if not (r["error"] or r["crash"]):
        r["unreached_raises"] = [x for x in r.get("declared_raises", [])
                                 if not any(_sub(y, x) for y in r.get("raised_classes", []))]
    else:
        r["unreached_raises"] = []
    r.pop("pending", None)


def _sub(a, b):
    from .interp import exc_is_sub
    return exc_is_sub(a, b)


def _lemma_one(job):
    repo_root, idx = job
    from .lemmas import prove_lemma
    repo, db = load(repo_root)
    return prove_lemma(repo, db, idx)


def run_check(prop, tier, repo_root, only=None, verbose=False):
    from .report import finish
    t0 = time.time()
    sys.path.insert(0, HERE)
    if tier == "thorough":
        os.environ.setdefault("PYVC_SECOND_OPINION", "1")     # inherited by the worker processes
    try:
        repo, db = load(repo_root)
    except Exception as exc:  # noqa: BLE001
        print(f"CHECKER-ERROR property={prop}: cannot load: {exc}")
        traceback.print_exc()
        return 3
    def serves(c):
        return prop in c.serves or any(prop in (v.get("__override__") or {}).get("serves", []) for v in c.variants.values())
    keys = [k for k, c in db.contracts.items() if serves(c) and not c.assumed and not (c.bounded and not c.bounded_clauses) and "::" in k
            and not c.inline_in_harness and not (c.inline and not c.ensures and not c.raises)]
    bounded = [c for c in db.contracts.values() if prop in c.serves and (c.bounded or c.bounded_extra)]
    if only:
        keys = [k for k in keys if only in k]
    lemma_idx = [i for i, l in enumerate(db.lemmas) if prop in l.get("serves", [])]
    jobs = []
    for k in keys:
        vs = db.contracts[k].variants
        if vs:
            jobs += [(repo_root, f"{k}@{v}", [], prop) for v, spec in vs.items()
                     if prop in (spec.get("__override__") or {}).get("serves", db.contracts[k].serves)]
        else:
            jobs.append((repo_root, k, [], prop))
    results, lemma_results = [], []
    if os.environ.get("PYVC_SERIAL"):
        results = [_verify_one(j) for j in jobs]
        lemma_results = [_lemma_one((repo_root, i)) for i in lemma_idx]
    else:
        # path-level parallelism: a job explores up to PATH_BUDGET paths below its start prefix and hands the
        # unexplored prefixes back; they become new jobs
        from concurrent.futures import FIRST_COMPLETED, wait
        merged: dict[str, dict] = {}
        order = []
        with ProcessPoolExecutor(max_workers=16) as pool:
            lfuts = [pool.submit(_lemma_one, (repo_root, i)) for i in lemma_idx]
            live = {}
            for j in jobs:
                live[pool.submit(_verify_one, (j[0], j[1], j[2], j[3], [], PATH_BUDGET))] = j
                order.append(j[1])
            while live:
                done, _ = wait(list(live), return_when=FIRST_COMPLETED)
                for f in done:
                    j = live.pop(f)
                    res = f.result()
                    for pref in res.get("pending", []):
                        live[pool.submit(_verify_one, (j[0], j[1], j[2], j[3], pref, PATH_BUDGET))] = j
                    _merge(merged, res)
            lemma_results = [f.result() for f in lfuts]
        results = [merged[k] for k in order if k in merged]
    for r in results:
        _finalize(r)
    def reverify(fn_key, obname, case):
        """re-run one function under the negated case predicate of a known finding"""
        if fn_key.startswith("lemma::"):
            return "failed"
        from . import smt as _smt
        for attempt in (1, 2):
            saved = (_smt.CVC5_TIMEOUT_S, _smt.FRESH_TIMEOUT_MS)
            if attempt == 2:      # an unhurried second attempt: the verdict must not depend on machine load
                _smt.CVC5_TIMEOUT_S, _smt.FRESH_TIMEOUT_MS = saved[0] * 2, saved[1] * 2
                _smt.HARD.clear()
            try:
                res = _verify_one((repo_root, fn_key, [f"not ({case})"], prop))
                _finalize(res)
            finally:
                _smt.CVC5_TIMEOUT_S, _smt.FRESH_TIMEOUT_MS = saved
            if res["error"] or res["crash"]:
                status = "undecided"
            else:
                e = res["obligations"].get(obname)
                status = "discharged" if e is None else e["status"]
            if status != "undecided":
                return status
        return "undecided"

    recheck_cache: dict = {}

    def recheck(fn_key, obname):
        """second, unhurried attempt at one function (serial, twice the solver budgets, once per function) before an
        obligation that was proved on the unchanged tree is reported as lost: a verdict must not depend on machine load"""
        if fn_key in recheck_cache:
            res = recheck_cache[fn_key]
            if res["error"] or res["crash"]:
                return "undecided"
            e = res["obligations"].get(obname)
            return e["status"] if e is not None else "undecided"
        from . import smt as _smt
        saved = (_smt.CVC5_TIMEOUT_S, _smt.FRESH_TIMEOUT_MS, _smt.FIRST_TIMEOUT_MS)
        _smt.CVC5_TIMEOUT_S, _smt.FRESH_TIMEOUT_MS, _smt.FIRST_TIMEOUT_MS = saved[0] * 2, saved[1] * 2, saved[2]
        _smt.HARD.clear()
        try:
            res = _verify_one((repo_root, fn_key, [], prop))
            _finalize(res)
        finally:
            _smt.CVC5_TIMEOUT_S, _smt.FRESH_TIMEOUT_MS, _smt.FIRST_TIMEOUT_MS = saved
        recheck_cache[fn_key] = res
        if res["error"] or res["crash"]:
            return "undecided"
        e = res["obligations"].get(obname)
        return e["status"] if e is not None else "undecided"

    extra = dict(db.meta.get(prop, {}))
    extra["recheck"] = recheck
    extra["bounded"] = list(extra.get("bounded", []))
    extra["bounded_failures"] = []
    for c in ([] if only else bounded):
        import subprocess
        try:
            out = subprocess.run(["/venv/bin/python", os.path.join(HERE, "replaylib", "bounded.py"), c.bounded or c.bounded_extra, repo_root, tier],
                                 capture_output=True, text=True, timeout=900)
            res = json.loads(out.stdout.strip().splitlines()[-1])
        except Exception as exc:  # noqa: BLE001
            res = {"name": c.bounded or c.bounded_extra, "error": f"{type(exc).__name__}: {exc}"}
        res["label"] = "bounded (never counted as proved)" if c.bounded else \
            "bounded native check run in addition to the proof of the same function (never counted)"
        extra["bounded"].append(res)
        if res.get("n_failures"):
            extra["bounded_failures"].append(res)
    if tier == "thorough":
        from .thorough import run_thorough
        extra.update(run_thorough(prop, repo_root, db, keys) or {})
    return finish(prop, tier, repo_root, db, results, lemma_results, time.time() - t0, verbose=verbose,
                  reverify=reverify, extra=extra)
