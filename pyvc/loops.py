"""Loops over symbolic collections / symbolic conditions, verified with sidecar invariants
(DESIGN.md 2.4): assert on entry, havoc the loop's assigned variables, assume invariant and guard,
execute the body once, assert the invariant again.  Termination is not proved."""
from __future__ import annotations

import ast

import z3

from .interp import Frame, _Break, _Continue
from .loader import Unsupported
from .ops import PyRaise, _b, raise_
from .state import PathInfeasible
from .tys import mk_sym
from .values import *  # noqa: F401,F403
from .values import term_of


class PathDone(Exception):
    """the path ends here normally (an arbitrary loop iteration has been verified)"""


def loop_ordinals(fnode):
    """source-order numbering of For/While/AsyncFor statements (and comprehensions over symbolic
    collections are not numbered: they must be concrete)"""
    out = {}
    n = [0]
    stmt_comps = {id(x.value) for x in ast.walk(fnode) if isinstance(x, ast.Expr) and isinstance(x.value, ast.ListComp)}

    def visit(node):
        for child in ast.iter_child_nodes(node):
            if isinstance(child, (ast.For, ast.While, ast.AsyncFor)) or \
                    (isinstance(child, ast.ListComp) and (id(child) in stmt_comps
                                                           or any(isinstance(x, ast.Await) for x in ast.walk(child)))):
                out[id(child)] = n[0]
                n[0] += 1
            visit(child)
    visit(fnode)
    return out


def header_of(s) -> str:
    if hasattr(s, "_comp_src"):
        return "comp " + s._comp_src
    if isinstance(s, ast.While):
        return "while " + ast.unparse(s.test)
    pre = "async for " if isinstance(s, ast.AsyncFor) else "for "
    return pre + ast.unparse(s.target) + " in " + ast.unparse(s.iter)


def visible_vars(fr: Frame) -> dict:
    env = {}
    chain = []
    f = fr
    while f is not None:
        chain.append(f)
        f = f.parent
    for f in reversed(chain):
        env.update(f.vars)
    return env


class VMapped(V):
    """(f(x) for x in <symbolic set>) with a pure element expression: the image of the set, kept symbolic"""
    kind = "mapped"

    def __init__(self, base, var, elt, frame):
        self.base = base
        self.var = var
        self.elt = elt
        self.frame = frame

    conds: list = ()
    pred = None

    def cond_of(self, ip, x):
        """conjunction of the generator's `if` clauses at x (pure expressions)"""
        f2 = Frame(self.frame.finfo, self.frame, cls=self.frame.cls)
        f2.vars[self.var] = x
        saved = ip.spec_mode
        ip.spec_mode = True
        try:
            out = [_b(ip.truth(ip.eval(c, f2))) for c in self.conds]
        finally:
            ip.spec_mode = saved
        return z3.And(*out) if out else z3.BoolVal(True)

    def image_of(self, ip, x):
        f2 = Frame(self.frame.finfo, self.frame, cls=self.frame.cls)
        f2.vars[self.var] = x
        saved = ip.spec_mode
        ip.spec_mode = True
        try:
            return ip.eval(self.elt, f2)
        finally:
            ip.spec_mode = saved


class VIter(V):
    """a view produced by dict.items()/keys()/values() on a symbolic map, or an opaque iterable"""
    kind = "iter"

    def __init__(self, what, base):
        self.what = what
        self.base = base


def loop_handler(ip, s, fr: Frame, it):
    c = ip.current_contract
    st = ip.st
    root = fr
    while root.parent is not None and root.parent.finfo is not None:
        root = root.parent
    top = ip.verified_finfo if getattr(ip, "verified_finfo", None) is not None else root.finfo
    ords = getattr(ip, "_loop_ords", None)
    if ords is None:
        ords = loop_ordinals(top.node)
        ip._loop_ords = ords
    k = ords.get(getattr(s, "_comp_id", id(s)))
    if k is None and hasattr(s, "_comp_key"):
        k = s._comp_key            # a value comprehension: keyed by its source text
    if k is None:
        raise Unsupported(f"loop at line {s.lineno} is outside the function under contract")
    inv = c.loops.get(k) if c is not None else None

    def accepts(i_):
        return header_of(s) in ((i_.header,) if isinstance(i_.header, str) else tuple(i_.header))

    if c is not None and (inv is None or not accepts(inv)) and not isinstance(k, str):
        # a loop was added or removed in front of this one: the sidecar's invariant is found by its header when that is unambiguous
        same = [(kk, i_) for kk, i_ in c.loops.items() if not isinstance(kk, str) and accepts(i_)]
        if len(same) == 1:
            k, inv = same[0]
    if inv is None:
        raise Unsupported(f"loop #{k} ({header_of(s)}) at line {s.lineno} needs an invariant in the sidecar")
    accepted = (inv.header,) if isinstance(inv.header, str) else tuple(inv.header)
    if header_of(s) not in accepted and not (isinstance(k, str) and k.startswith("comp ")):
        raise Unsupported(f"sidecar out of date: loop #{k} header is `{header_of(s)}`, sidecar has `{inv.header}`")
    base_env = dict(ip.verify_env) if getattr(ip, "verify_env", None) else {}
    old = getattr(ip, "verify_old", None)

    def inv_env():
        e = dict(base_env)
        e.update(visible_vars(fr))
        return e

    # ---- index ghost for sequence iteration
    seq_term = None
    idx_name = inv.ghost.get("index")
    arr_it = it if isinstance(it, VArr) and isinstance(s, ast.For) else None
    if idx_name is None and isinstance(k, str):
        idx_name = "__ci"
    if arr_it is not None:
        if idx_name is None:
            idx_name = f"__i{k}"
        fr.vars[idx_name] = VInt(0)
    if isinstance(s, ast.For) and isinstance(it, VMap) and getattr(it, "ordered", False):
        kref = st.new_ref()
        st.heap[(kref, "seq")] = st.heap[(it.ref, "keys")]       # `for k in d`: the keys in insertion order
        it = VSeq(kref, it.key)
    rev = False
    if isinstance(s, ast.For) and isinstance(it, VIter) and it.what == "reversed" and isinstance(it.base, VSeq):
        it, rev = it.base, True          # reversed(seq): the k-th item is seq[len-1-k]; no copy, no quantifier
    if isinstance(s, ast.For) and isinstance(it, VSeq):
        seq_term = st.heap[(it.ref, "seq")]
        if idx_name is None:
            idx_name = f"__i{k}"
        fr.vars[idx_name] = VInt(0)
    visited_name = None
    map_it = it.base if isinstance(it, VIter) and isinstance(it.base, VMap) else (it if isinstance(it, VMap) else None)
    if isinstance(s, ast.For) and map_it is not None:
        visited_name = inv.ghost.get("visited", f"__visited{k}")
        vref = st.new_ref()
        st.heap[(vref, "set")] = z3.K(sort_of_type(map_it.key), z3.BoolVal(False))
        fr.vars[visited_name] = VSet(vref, map_it.key)
        set_at_entry = st.heap[(map_it.ref, "dom")]
        elem_sort_t = map_it.key
    if isinstance(s, ast.For) and isinstance(it, VSet):
        elem_sort_t = it.elem
        visited_name = inv.ghost.get("visited", f"__visited{k}")
        vref = st.new_ref()
        st.heap[(vref, "set")] = z3.K(sort_of_type(it.elem), z3.BoolVal(False))
        fr.vars[visited_name] = VSet(vref, it.elem)
        set_at_entry = st.heap[(it.ref, "set")]
    for g, (t, init) in inv.ghost.get("vars", {}).items():
        fr.vars[g] = ip.eval_spec_expr(init, inv_env(), old)
    inv_items = list(inv.invariant.items()) if isinstance(inv.invariant, dict) else list(enumerate(inv.invariant))
    # ---- entry
    for i, clause in inv_items:
        ip.check(f"loop{k}:entry:{i}", ip.spec_bool(clause, inv_env(), old), where=clause)
    # ---- havoc
    loop_pre = st.snapshot()
    for name, t in (inv.modifies.items() if isinstance(inv.modifies, dict) else []):
        if "." in name and t is not None:
            r = ip.resolve_location(name, inv_env())
            if r[0] == "field":
                ip.st.heap[(r[1].ref, r[2])] = mk_sym(st, ip.tenv, t, st.fresh_name(name))
            elif r[0] == "ghost":
                ip.st.ghost[r[1]] = mk_sym(st, ip.tenv, t, st.fresh_name(name))
            else:
                ip.havoc([name], inv_env())
        elif "." in name:
            ip.havoc([name], inv_env())
        else:
            cur = fr.lookup(name)
            if t is None and cur is not None:
                fr.assign(name, ip.havoc_value(cur, None, name))
            else:
                fr.assign(name, mk_sym(st, ip.tenv, t, st.fresh_name(name)))
    if visited_name is not None:
        vis = st.fresh(visited_name, z3.ArraySort(sort_of_type(elem_sort_t), z3.BoolSort()))
        st.heap[(fr.vars[visited_name].ref, "set")] = vis
        # visited elements are elements of the set being iterated
        y = z3.Const(st.fresh_name("y"), sort_of_type(elem_sort_t))
        st.assume(z3.ForAll([y], z3.Implies(z3.Select(vis, y), z3.Select(set_at_entry, y))))
    if idx_name is not None and seq_term is not None:
        i_t = st.fresh(idx_name, z3.IntSort())
        st.assume(z3.And(i_t >= 0, i_t <= z3.Length(seq_term)))
        fr.vars[idx_name] = VInt(i_t)
    if arr_it is not None:
        i_t = st.fresh(idx_name, z3.IntSort())
        st.assume(z3.And(i_t >= 0, i_t <= st.heap[(arr_it.ref, "len")]))
        fr.vars[idx_name] = VInt(i_t)
    for _i, clause in inv_items:
        st.assume(ip.spec_bool(clause, inv_env(), old))
    # ---- exit or iterate
    if st.choose(2, f"loop{k}") == 0:
        # exit
        if isinstance(s, ast.While):
            t = ip.truth(ip.eval(s.test, fr))
            if st.branch(_b(t)):
                raise PathInfeasible()   # guard still true: this is the iterate case, explored separately
        elif seq_term is not None:
            st.assume(fr.vars[idx_name].term == z3.Length(seq_term))
        elif arr_it is not None:
            st.assume(fr.vars[idx_name].term == st.heap[(arr_it.ref, "len")])
        elif visited_name is not None:
            st.assume(st.heap[(fr.vars[visited_name].ref, "set")] == set_at_entry)   # every element was visited
        elif isinstance(s, ast.AsyncFor):
            raise PathInfeasible() if not inv.ghost.get("may_exit", False) else None
        if not st.feasible(z3.BoolVal(True)):
            raise PathInfeasible()      # the loop cannot end here (e.g. the searched element must be found)
        ip.exec_block(s.orelse, fr)
        return
    # iterate once
    if isinstance(s, ast.While):
        t = ip.truth(ip.eval(s.test, fr))
        if not st.branch(_b(t)):
            raise PathInfeasible()
    elif isinstance(s, ast.AsyncFor):
        item = ip.do_await(ip.call_function(ip.getattr(it, "__anext__"), [], {}, s), s)
        ip.assign_target(s.target, item, fr)
    else:
        item = next_item(ip, it, seq_term, fr, idx_name, inv, k, rev)
        if visited_name is not None:
            vr = fr.vars[visited_name].ref
            loop_item = item.items[0] if isinstance(item, VTuple) else item     # map items(): the key
            st.assume(z3.Not(z3.Select(st.heap[(vr, "set")], term_of(loop_item))))
        ip.assign_target(s.target, item, fr)
    try:
        ip.exec_block(s.body, fr)
    except _Break:
        return
    except _Continue:
        pass
    if idx_name is not None and (seq_term is not None or arr_it is not None):
        fr.vars[idx_name] = VInt(fr.vars[idx_name].term + 1)
    if visited_name is not None:
        vr = fr.vars[visited_name].ref
        st.heap[(vr, "set")] = z3.Store(st.heap[(vr, "set")], term_of(loop_item), z3.BoolVal(True))
    for upd_name, upd in inv.ghost.get("update", {}).items():
        fr.vars[upd_name] = ip.eval_spec_expr(upd, inv_env(), old)
    for hi, hint in enumerate(inv.ghost.get("hints", [])):
        ht = ip.spec_bool(hint, inv_env(), old)
        if ip.check(f"loop{k}:hint:{hi}", ht, where=hint):
            st.assume(ht)          # a proved cut, then available to the solver as a fact
    for i, clause in inv_items:
        ip.check(f"loop{k}:preserved:{i}", ip.spec_bool(clause, inv_env(), old), where=clause)
    raise PathDone()


def next_item(ip, it, seq_term, fr, idx_name, inv, k, rev=False):
    st = ip.st
    if rev:
        i_t = fr.vars[idx_name].term
        st.assume(i_t < z3.Length(seq_term))
        x = seq_term[z3.Length(seq_term) - 1 - i_t]
        return wrap(it.elem, x) if it.elem[0] != "obj" else VObj(it.elem[1], x)
    if isinstance(it, VArr):
        i_t = fr.vars[idx_name].term
        st.assume(i_t < st.heap[(it.ref, "len")])
        x = z3.Select(st.heap[(it.ref, "arr")], i_t)
        return wrap(it.elem, x) if it.elem[0] not in ("obj", "symobj") else VObj(it.elem[1], x)
    if isinstance(it, VSeq):
        i_t = fr.vars[idx_name].term
        st.assume(i_t < z3.Length(seq_term))
        if inv.ghost.get("prefix_lemma"):
            # a theorem of sequences the solvers do not find by themselves: s[0:i+1] == s[0:i] ++ [s[i]]  (opt-in)
            st.assume(z3.SubSeq(seq_term, 0, i_t + 1) == z3.Concat(z3.SubSeq(seq_term, 0, i_t), z3.Unit(seq_term[i_t])))
        return wrap(it.elem, seq_term[i_t]) if it.elem[0] != "obj" else VObj(it.elem[1], seq_term[i_t])
    if isinstance(it, VIter) and isinstance(it.base, VMap):
        m = it.base
        kt = mk_key(ip, m)
        st.assume(z3.Select(st.heap[(m.ref, "dom")], term_of(kt)))
        if it.what == "keys":
            return kt
        val = map_get(ip, m, kt)
        if it.what == "values":
            return val
        return VTuple([kt, val])
    if isinstance(it, VMap):
        kt = mk_key(ip, it)
        st.assume(z3.Select(st.heap[(it.ref, "dom")], term_of(kt)))
        return kt
    if isinstance(it, VSet):
        x = st.fresh("elem", sort_of_type(it.elem))
        st.assume(z3.Select(st.heap[(it.ref, "set")], x))
        return wrap(it.elem, x) if it.elem[0] != "obj" else VObj(it.elem[1], x)
    if isinstance(it, (VOpaque, VIter)):
        et = inv.ghost.get("elem")
        if et is None:
            raise Unsupported(f"loop #{k}: element type of an opaque iterable must be declared (ghost['elem'])")
        return mk_sym(st, ip.tenv, et, st.fresh_name("item"))
    raise Unsupported(f"loop #{k}: iteration over {it!r}")


def kterm(ip, key):
    """z3 term of a collection key / element; an Optional known to be present is unwrapped"""
    if isinstance(key, VOpt):
        key = ip.unopt(key)
    return term_of(key)


def mk_key(ip, m: VMap):
    x = ip.st.fresh("key", sort_of_type(m.key))
    return wrap(m.key, x) if m.key[0] != "obj" else VObj(m.key[1], x)


# ---------------------------------------------------------------------- symbolic map operations
def map_get(ip, m: VMap, key: V) -> V:
    st = ip.st
    val = z3.Select(st.heap[(m.ref, "val")], kterm(ip, key))
    vt = m.val
    if vt[0] == "seq":
        from .tys import elem_type
        return VSeq(("mv", m.ref, kterm(ip, key)), elem_type(vt[1]))
    if vt[0] == "set":
        from .tys import elem_type
        return VSet(("mv", m.ref, kterm(ip, key)), elem_type(vt[1]))
    if vt[0] == "obj":
        return VObj(vt[1], val)
    return wrap(vt, val)


def map_getitem(ip, m: VMap, key: V):
    st = ip.st
    indom = z3.Select(st.heap[(m.ref, "dom")], kterm(ip, key))
    if getattr(m, "default", False) and not ip.spec_mode:
        # defaultdict: a missing key is inserted with an empty collection
        if not st.branch(indom):
            from .tys import elem_type
            st.heap[(m.ref, "dom")] = z3.Store(st.heap[(m.ref, "dom")], kterm(ip, key), z3.BoolVal(True))
            if m.val[0] == "set":
                empty = z3.K(sort_of_type(elem_type(m.val[1])), z3.BoolVal(False))
            elif m.val[0] == "seq":
                empty = z3.Empty(z3.SeqSort(sort_of_type(elem_type(m.val[1]))))
            else:
                raise Unsupported("defaultdict with a scalar factory")
            st.heap[(m.ref, "val")] = z3.Store(st.heap[(m.ref, "val")], kterm(ip, key), empty)
        return map_get(ip, m, key)
    if not ip.spec_mode and not st.branch(indom):
        raise_("KeyError")
    return map_get(ip, m, key)


def m_update(ip, args, kwargs, node):
    """d.update(other) for two symbolic maps: other's entries override"""
    m, o = args[0], args[1]
    if not isinstance(o, VMap):
        raise Unsupported("dict.update with a non-map argument")
    st = ip.st
    k = z3.Const(st.fresh_name("k"), sort_of_type(m.key))
    d1, v1 = st.heap[(m.ref, "dom")], st.heap[(m.ref, "val")]
    d2, v2 = st.heap[(o.ref, "dom")], st.heap[(o.ref, "val")]
    st.heap[(m.ref, "dom")] = z3.Lambda([k], z3.Or(z3.Select(d1, k), z3.Select(d2, k)))
    st.heap[(m.ref, "val")] = z3.Lambda([k], z3.If(z3.Select(d2, k), z3.Select(v2, k), z3.Select(v1, k)))
    return VNone


def set_issubset(ip, args, kwargs, node):
    """s.issubset(other) for a symbolic set against a symbolic set or the keys of a symbolic dict"""
    s, o = args[0], args[1]
    k = z3.Const(ip.st.fresh_name("k"), sort_of_type(s.elem))
    mine = z3.Select(ip.st.heap[(s.ref, "set")], k)
    if isinstance(o, VSet):
        theirs = z3.Select(ip.st.heap[(o.ref, "set")], k)
    elif isinstance(o, VMap):
        theirs = z3.Select(ip.st.heap[(o.ref, "dom")], k)
    else:
        raise Unsupported(f"set.issubset({o!r})")
    return VBool(z3.ForAll([k], z3.Implies(mine, theirs)))


def set_update(ip, args, kwargs, node):
    s, o = args[0], args[1]
    if not isinstance(o, VSet):
        raise Unsupported("set.update with a non-set argument")
    k = z3.Const(ip.st.fresh_name("k"), sort_of_type(s.elem))
    a, b = ip.st.heap[(s.ref, "set")], ip.st.heap[(o.ref, "set")]
    ip.st.heap[(s.ref, "set")] = z3.Lambda([k], z3.Or(z3.Select(a, k), z3.Select(b, k)))
    return VNone


def map_setitem(ip, m: VMap, key: V, v: V):
    st = ip.st
    if getattr(m, "ordered", False):
        # a new key goes to the end of the insertion order, an existing one keeps its place
        kt_ = kterm(ip, key)
        keys = st.heap[(m.ref, "keys")]
        if st.branch(z3.Select(st.heap[(m.ref, "dom")], kt_)):
            pass
        else:
            pos0 = st.heap[(m.ref, "pos")]
            pos1 = z3.Function(st.fresh_name("pos"), kt_.sort(), z3.IntSort())
            new = named_append(st, keys, kt_, z3.Concat(keys, z3.Unit(kt_)))
            kk = z3.Const(st.fresh_name("k"), kt_.sort())
            st.assume(z3.ForAll([kk], pos1(kk) == z3.If(kk == kt_, z3.Length(keys), pos0(kk)), patterns=[pos1(kk)]))
            st.heap[(m.ref, "keys")] = new
            st.heap[(m.ref, "pos")] = pos1
    st.heap[(m.ref, "dom")] = z3.Store(st.heap[(m.ref, "dom")], kterm(ip, key), z3.BoolVal(True))
    st.heap[(m.ref, "val")] = z3.Store(st.heap[(m.ref, "val")], kterm(ip, key), coerce(ip, v, m.val))


def coerce(ip, v: V, t):
    """term of a value stored into a collection with element type t"""
    if t[0] == "opaque":
        if isinstance(v, VOpaque):
            return v.term
        if isinstance(v, VClass):
            return z3.Const("class_" + v.name, Opaque)       # a class object used as a plain value
        from .values import VMethod as _VM
        if isinstance(v, _VM) and isinstance(v.obj, VObj) and not v.obj.symbolic:
            return ip.func_token(v)
        if isinstance(v, VCoro) or isinstance(v, VFunc) or isinstance(v, VObj) or isinstance(v, (VList, VDict, VTuple)):
            # storing a structured value into an opaque container: keep an opaque token for it
            tok = ip.st.fresh("tok", Opaque)
            ip.st.notes.append("structured value stored into an opaque container")
            if not hasattr(ip.st, "tokens"):
                ip.st.tokens = {}
            ip.st.tokens[str(tok)] = v
            return tok
    if isinstance(v, VOpt):
        v = ip.unopt(v)
    if t[0] in ("set", "seq") and isinstance(v, (VSet, VSeq)):
        # a mutable collection stored BY REFERENCE inside another collection: from now on both owners see each other's
        # updates.  The value model has no aliasing between collections, so this is reported as an ownership violation
        # (the content is copied in order to go on).
        if not ip.spec_mode:
            ip.check("ownership:no-shared-mutable-collection", z3.BoolVal(False),
                     where="a set/list object that belongs to another object is stored by reference (shared mutable state)")
        return ip.st.heap[(v.ref, "set" if isinstance(v, VSet) else "seq")]
    if t[0] in ("obj", "symobj") and isinstance(v, VTuple):
        # a tuple stored where the sidecar declares a record type with as many fields: a symbolic record with those fields
        names = list(ip.tenv.fields_of(t[1]))
        if len(names) != len(v.items):
            raise Unsupported(f"tuple of {len(v.items)} items stored as {t[1]}")
        twin = VObj(t[1], ip.st.fresh("record_" + t[1].split("@")[0], obj_sort(t[1])))
        for f, item in zip(names, v.items):
            ft = ip.tenv.fields_of(t[1])[f]
            fv = ip.get_field(twin, f)
            it = VOpaque(coerce(ip, item, ft)) if ft[0] == "opaque" and not isinstance(item, VOpaque) else item
            e = ip.eq(fv, it)
            if e is False:
                raise Unsupported(f"field {t[1]}.{f}: not comparable")
            ip.st.assume(_b(e))
        return twin.ref
    if t[0] in ("obj", "symobj") and isinstance(v, VObj) and not v.symbolic:
        # a heap object stored into a collection of immutable objects: a symbolic twin with equal first-order fields
        twin = VObj(t[1], ip.st.fresh("stored_" + t[1].split("@")[0], obj_sort(t[1])))
        for f, ft in ip.tenv.fields_of(t[1]).items():
            if ft[0] in ("map", "seq", "set", "hmap", "clist", "cdict"):
                continue
            try:
                e = ip.eq(ip.get_field(twin, f), ip.get_field(v, f))
                if e is False:
                    raise Unsupported("not comparable")
                ip.st.assume(_b(e))
            except (Unsupported, KeyError, TypeError):
                ip.st.notes.append(f"field {t[1]}.{f} not carried into the collection element")
        return twin.ref
    return term_of(v)


def m_items(ip, args, kwargs, node):
    return VIter("items", args[0])


def m_keys(ip, args, kwargs, node):
    return VIter("keys", args[0])


def m_values(ip, args, kwargs, node):
    return VIter("values", args[0])


def m_get(ip, args, kwargs, node):
    m, key = args[0], args[1]
    default = args[2] if len(args) > 2 else VNone
    st = ip.st
    indom = z3.Select(st.heap[(m.ref, "dom")], kterm(ip, key))
    if ip.spec_mode and m.val[0] == "seq" and isinstance(default, (VList, VTuple)) and not ip.items_of(default):
        from .tys import elem_type
        et = elem_type(m.val[1])
        ref = st.new_ref()
        st.heap[(ref, "seq")] = z3.If(indom, z3.Select(st.heap[(m.ref, "val")], kterm(ip, key)),
                                      z3.Empty(z3.SeqSort(sort_of_type(et))))
        return VSeq(ref, et)
    if ip.spec_mode:
        return ip.ite(indom, map_get(ip, m, key), default)
    if st.branch(indom):
        return map_get(ip, m, key)
    return default


def m_pop(ip, args, kwargs, node):
    m, key = args[0], args[1]
    st = ip.st
    indom = z3.Select(st.heap[(m.ref, "dom")], kterm(ip, key))
    if st.branch(indom):
        v = map_get(ip, m, key)
        st.heap[(m.ref, "dom")] = z3.Store(st.heap[(m.ref, "dom")], kterm(ip, key), z3.BoolVal(False))
        return v
    if len(args) > 2:
        return args[2]
    raise_("KeyError")


def b_next(ip, args, kwargs, node):
    """next(generator over a symbolic set[, default]): SOME element that passes the filters (a set has no order), or the
    default / StopIteration when no element passes"""
    g = args[0]
    st = ip.st
    if isinstance(g, VMapped):
        S = st.heap[(g.base.ref, "set")]
        if st.choose(2, "next") == 0:
            y = st.fresh("picked", sort_of_type(g.base.elem))
            yv = wrap(g.base.elem, y) if g.base.elem[0] not in ("obj", "symobj") else VObj(g.base.elem[1], y)
            st.assume(z3.And(z3.Select(S, y), g.cond_of(ip, yv)))
            if not st.feasible(z3.BoolVal(True)):
                raise PathInfeasible()
            return g.image_of(ip, yv)
        z = st.fresh("z", sort_of_type(g.base.elem))
        zv = wrap(g.base.elem, z) if g.base.elem[0] not in ("obj", "symobj") else VObj(g.base.elem[1], z)
        st.assume(z3.ForAll([z], z3.Implies(z3.Select(S, z), z3.Not(g.cond_of(ip, zv)))))
        if not st.feasible(z3.BoolVal(True)):
            raise PathInfeasible()
        if len(args) > 1:
            return args[1]
        raise_("StopIteration")
    from .values import VList
    if isinstance(g, (VList, VTuple)):
        items = ip.iterate(g)
        if items:
            return items[0]
        if len(args) > 1:
            return args[1]
        raise_("StopIteration")
    raise Unsupported(f"next({g!r})")


def b_reversed(ip, args, kwargs, node):
    x = args[0]
    if isinstance(x, VSeq):
        return VIter("reversed", x)
    from .values import VList
    if isinstance(x, (VList, VTuple)):
        return ip.new_list(list(reversed(ip.iterate(x))))
    raise Unsupported(f"reversed({x!r})")


def install(lib):
    lib["__loop__"] = loop_handler
    lib["reversed"] = VBuiltin("reversed", b_reversed)
    lib["next"] = VBuiltin("next", b_next)
    lib["__getitem__"]["map"] = map_getitem
    lib["__setitem__"]["map"] = map_setitem
    meth = lib["__methods__"]
    meth[("map", "items")] = VBuiltin("map.items", m_items)
    meth[("map", "keys")] = VBuiltin("map.keys", m_keys)
    meth[("map", "values")] = VBuiltin("map.values", m_values)
    meth[("map", "get")] = VBuiltin("map.get", m_get)
    meth[("map", "pop")] = VBuiltin("map.pop", m_pop)


# ---------------------------------------------------------------------- symbolic sequence operations
def _seq(ip, s):
    return ip.st.heap[(s.ref, "seq")]


def _elem_term(ip, s, v):
    return coerce(ip, v, s.elem) if s.elem[0] in ("opaque", "func") else term_of(ip.unopt(v) if isinstance(v, VOpt) else v)


def seq_append(ip, args, kwargs, node):
    s, x = args
    cur = _seq(ip, s)
    xt = _elem_term(ip, s, x)
    new = z3.Concat(cur, z3.Unit(xt))
    c = getattr(ip, "current_contract", None)
    if c is not None and getattr(c, "seq_lemmas", False) and not ip.spec_mode:
        # the same value, named, with its element-wise description (theorems of Concat/Unit the solvers do not find under
        # quantifiers): length, the new last element, and every old element in place
        new = named_append(ip.st, cur, xt, new)
    ip.st.heap[(s.ref, "seq")] = new
    return VNone


def seq_extend(ip, args, kwargs, node):
    """list.extend(other): another symbolic list, or the values() of a symbolic dict (in SOME order: every value of the
    dict occurs, nothing else does)"""
    s, o = args
    st = ip.st
    cur = _seq(ip, s)
    if isinstance(o, VSeq):
        st.heap[(s.ref, "seq")] = z3.Concat(cur, _seq(ip, o))
        return VNone
    if isinstance(o, VIter) and o.what == "values" and isinstance(o.base, VMap):
        m = o.base
        dom, val = st.heap[(m.ref, "dom")], st.heap[(m.ref, "val")]
        vs = st.fresh("values", cur.sort())
        at_ = z3.Function(st.fresh_name("key_at"), z3.IntSort(), dom.sort().domain())
        pos = z3.Function(st.fresh_name("pos_of"), dom.sort().domain(), z3.IntSort())
        j = z3.Int(st.fresh_name("j"))
        k = z3.Const(st.fresh_name("k"), dom.sort().domain())
        inb = z3.And(j >= 0, j < z3.Length(vs))
        st.assume(z3.ForAll([j], z3.Implies(inb, z3.And(z3.Select(dom, at_(j)), vs[j] == z3.Select(val, at_(j)), pos(at_(j)) == j)),
                            patterns=[vs[j]]))
        st.assume(z3.ForAll([k], z3.Implies(z3.Select(dom, k), z3.And(pos(k) >= 0, pos(k) < z3.Length(vs), at_(pos(k)) == k)),
                            patterns=[z3.Select(dom, k)]))
        empty = z3.K(dom.sort().domain(), z3.BoolVal(False))
        st.assume((z3.Length(vs) == 0) == (dom == empty))
        st.heap[(s.ref, "seq")] = named_concat(st, cur, vs)
        return VNone
    raise Unsupported(f"list.extend({o!r})")


def seq_insert(ip, args, kwargs, node):
    s, i, x = args
    cur = _seq(ip, s)
    n = z3.Length(cur)
    idx = i.term
    # list.insert clamps the index into [0, len] (negative indices count from the end)
    idx = z3.If(idx < 0, z3.If(idx + n < 0, 0, idx + n), z3.If(idx > n, n, idx))
    ip.st.heap[(s.ref, "seq")] = z3.Concat(z3.SubSeq(cur, 0, idx), z3.Unit(_elem_term(ip, s, x)), z3.SubSeq(cur, idx, n - idx))
    return VNone


def seq_pop(ip, args, kwargs, node):
    s = args[0]
    cur = _seq(ip, s)
    n = z3.Length(cur)
    if not ip.spec_mode and ip.st.branch(n == 0):
        raise_("IndexError", "pop from empty list")
    if len(args) > 1:
        idx = args[1].term
        if not ip.spec_mode and ip.st.branch(z3.Or(idx >= n, idx < -n)):
            raise_("IndexError", "pop index out of range")
        idx = z3.If(idx < 0, idx + n, idx)
    else:
        idx = n - 1
    x = cur[idx]
    ip.st.heap[(s.ref, "seq")] = z3.Concat(z3.SubSeq(cur, 0, idx), z3.SubSeq(cur, idx + 1, n - idx - 1))
    return wrap(s.elem, x) if s.elem[0] not in ("obj", "symobj") else VObj(s.elem[1], x)


def seq_getitem(ip, s, idx):
    cur = _seq(ip, s)
    n = z3.Length(cur)
    i = idx.term
    if not ip.spec_mode and ip.st.branch(z3.Or(i >= n, i < -n)):
        raise_("IndexError")
    i = z3.If(i < 0, i + n, i)
    x = cur[i]
    return wrap(s.elem, x) if s.elem[0] not in ("obj", "symobj") else VObj(s.elem[1], x)


def seq_slice(ip, s, lo, hi):
    """spec-only: s[lo:hi] as a new sequence value"""
    cur = _seq(ip, s)
    n = z3.Length(cur)
    a = lo.term if lo is not None else z3.IntVal(0)
    b = hi.term if hi is not None else n
    ref = ip.st.new_ref()
    sub = z3.SubSeq(cur, a, b - a)
    c = getattr(ip, "current_contract", None)
    if c is not None and getattr(c, "seq_lemmas", False) and getattr(ip, "quant_depth", 0) == 0:
        sub = named_subseq(ip.st, cur, a, b - a, sub)
    ip.st.heap[(ref, "seq")] = sub
    return VSeq(ref, s.elem)


def named_subseq(st, cur, a, ln, sub):
    """SubSeq(cur, a, ln) as a named value with its element-wise description, for 0 <= a and the slice inside cur (the
    only case the lemma speaks about); theorems of SubSeq the solvers do not find under quantifiers"""
    res = st.fresh("slice", cur.sort())
    j = z3.Int(st.fresh_name("j"))
    st.assume(res == sub)
    inside = z3.And(a >= 0, ln >= 0, a + ln <= z3.Length(cur))
    st.assume(z3.Implies(inside, z3.Length(res) == ln))
    st.assume(z3.Implies(inside, z3.ForAll([j], z3.Implies(z3.And(j >= 0, j < ln), res[j] == cur[a + j]), patterns=[res[j]])))
    st.assume(z3.Implies(inside, z3.ForAll([j], z3.Implies(z3.And(j >= a, j < a + ln), cur[j] == res[j - a]), patterns=[cur[j]])))
    return res


def named_concat(st, a, b):
    """a ++ b as a named value with its element-wise description"""
    r = st.fresh("joined", a.sort())
    j = z3.Int(st.fresh_name("j"))
    st.assume(r == z3.Concat(a, b))
    st.assume(z3.Length(r) == z3.Length(a) + z3.Length(b))
    st.assume(z3.ForAll([j], z3.Implies(z3.And(j >= 0, j < z3.Length(a)), r[j] == a[j]), patterns=[r[j]]))
    st.assume(z3.ForAll([j], z3.Implies(z3.And(j >= z3.Length(a), j < z3.Length(r)), r[j] == b[j - z3.Length(a)]), patterns=[r[j]]))
    return r


def named_append(st, cur, xt, new):
    s2 = st.fresh("appended", cur.sort())
    i = z3.Int(st.fresh_name("i"))
    st.assume(s2 == new)
    st.assume(z3.Length(s2) == z3.Length(cur) + 1)
    st.assume(s2[z3.Length(cur)] == xt)
    st.assume(z3.ForAll([i], z3.Implies(z3.And(i >= 0, i < z3.Length(cur)), s2[i] == cur[i]), patterns=[s2[i]]))
    return s2


def arr_getitem(ip, a, idx):
    i = idx.term
    n = ip.st.heap[(a.ref, "len")]
    if not ip.spec_mode and ip.st.branch(z3.Or(i >= n, i < -n)):
        raise_("IndexError")
    i = z3.If(i < 0, i + n, i)
    x = z3.Select(ip.st.heap[(a.ref, "arr")], i)
    return wrap(a.elem, x) if a.elem[0] not in ("obj", "symobj") else VObj(a.elem[1], x)


def seq_len(ip, s):
    return VInt(z3.Length(_seq(ip, s)))


_install_maps = install


def install(lib):  # noqa: F811
    _install_maps(lib)
    meth = lib["__methods__"]
    meth[("seq", "append")] = VBuiltin("list.append", seq_append)
    meth[("seq", "extend")] = VBuiltin("list.extend", seq_extend)
    meth[("seq", "insert")] = VBuiltin("list.insert", seq_insert)
    meth[("seq", "pop")] = VBuiltin("list.pop", seq_pop)
    lib["__getitem__"]["seq"] = seq_getitem
    lib["__getitem__"]["arr"] = arr_getitem
    lib["__len__"]["arr"] = lambda ip, v: VInt(ip.st.heap[(v.ref, "len")])
    lib["__slice__"]["seq"] = seq_slice


# ---------------------------------------------------------------------- sets, queues, heap maps
def _setv(ip, s):
    return ip.st.heap[(s.ref, "set")]


def _obj_or_wrap(t, term):
    return VObj(t[1], term) if t[0] in ("obj", "symobj") else wrap(t, term)


def set_add(ip, args, kwargs, node):
    s, x = args
    ip.st.heap[(s.ref, "set")] = z3.Store(_setv(ip, s), kterm(ip, x), z3.BoolVal(True))
    return VNone


def set_discard(ip, args, kwargs, node):
    s, x = args
    ip.st.heap[(s.ref, "set")] = z3.Store(_setv(ip, s), kterm(ip, x), z3.BoolVal(False))
    return VNone


def set_remove(ip, args, kwargs, node):
    s, x = args
    if not ip.spec_mode and not ip.st.branch(z3.Select(_setv(ip, s), kterm(ip, x))):
        raise_("KeyError")
    return set_discard(ip, args, kwargs, node)


def set_pop(ip, args, kwargs, node):
    s = args[0]
    cur = _setv(ip, s)
    empty = z3.K(sort_of_type(s.elem), z3.BoolVal(False))
    if ip.st.branch(cur == empty):
        raise_("KeyError", "pop from an empty set")
    x = ip.st.fresh("popped", sort_of_type(s.elem))
    ip.st.assume(z3.Select(cur, x))       # an arbitrary element
    ip.st.heap[(s.ref, "set")] = z3.Store(cur, x, z3.BoolVal(False))
    return _obj_or_wrap(s.elem, x)


def q_put_nowait(ip, args, kwargs, node):
    return seq_append(ip, args, kwargs, node)    # unbounded asyncio.Queue: never QueueFull


def q_get_nowait(ip, args, kwargs, node):
    s = args[0]
    cur = _seq(ip, s)
    if ip.st.branch(z3.Length(cur) == 0):
        raise_("QueueEmpty")
    x = cur[0]
    ip.st.heap[(s.ref, "seq")] = z3.SubSeq(cur, 1, z3.Length(cur) - 1)
    return _obj_or_wrap(s.elem, x)


def q_put(ip, args, kwargs, node):
    """await queue.put(x) on an unbounded asyncio.Queue: appends, never blocks"""
    seq_append(ip, args, kwargs, node)
    ip.last_builtin_awaitable = True
    return VNone


def q_qsize(ip, args, kwargs, node):
    return VInt(z3.Length(_seq(ip, args[0])))


def q_empty(ip, args, kwargs, node):
    return VBool(z3.Length(_seq(ip, args[0])) == 0)


def m_setdefault(ip, args, kwargs, node):
    m, key = args[0], args[1]
    default = args[2] if len(args) > 2 else VNone
    st = ip.st
    indom = z3.Select(st.heap[(m.ref, "dom")], kterm(ip, key))
    if not st.branch(indom):
        st.heap[(m.ref, "dom")] = z3.Store(st.heap[(m.ref, "dom")], kterm(ip, key), z3.BoolVal(True))
        if m.val[0] == "seq":
            items = ip.items_of(default) if isinstance(default, (VList, VTuple)) else None
            if items is None:
                raise Unsupported("setdefault with a non-literal list default")
            from .tys import elem_type
            et = elem_type(m.val[1])
            sq = z3.Empty(z3.SeqSort(sort_of_type(et)))
            for it in items:
                sq = z3.Concat(sq, z3.Unit(term_of(it)))
            st.heap[(m.ref, "val")] = z3.Store(st.heap[(m.ref, "val")], kterm(ip, key), sq)
        else:
            st.heap[(m.ref, "val")] = z3.Store(st.heap[(m.ref, "val")], kterm(ip, key), coerce(ip, default, m.val))
    return map_get(ip, m, key)


def m_pop_any(ip, args, kwargs, node):
    """dict.pop(k[, default]) for maps whose values may be collections: the popped value is a detached copy"""
    m, key = args[0], args[1]
    st = ip.st
    indom = z3.Select(st.heap[(m.ref, "dom")], kterm(ip, key))
    if st.branch(indom):
        if m.val[0] in ("seq", "set"):
            from .tys import elem_type
            ref = st.new_ref()
            content = z3.Select(st.heap[(m.ref, "val")], kterm(ip, key))
            st.heap[(ref, "seq" if m.val[0] == "seq" else "set")] = content
            v = VSeq(ref, elem_type(m.val[1])) if m.val[0] == "seq" else VSet(ref, elem_type(m.val[1]))
        else:
            v = map_get(ip, m, key)
        st.heap[(m.ref, "dom")] = z3.Store(st.heap[(m.ref, "dom")], kterm(ip, key), z3.BoolVal(False))
        return v
    if len(args) > 2:
        return args[2]
    raise_("KeyError")


def map_min_key(ip, m: VMap):
    st = ip.st
    dom = st.heap[(m.ref, "dom")]
    if st.branch(dom == z3.K(sort_of_type(m.key), z3.BoolVal(False))):
        raise_("ValueError", "min() arg is an empty sequence")
    k = st.fresh("minkey", sort_of_type(m.key))
    j = z3.Const(st.fresh_name("j"), sort_of_type(m.key))
    st.assume(z3.Select(dom, k))
    st.assume(z3.ForAll([j], z3.Implies(z3.Select(dom, j), k <= j)))
    return wrap(m.key, k)


def map_max_key(ip, m: VMap):
    st = ip.st
    dom = st.heap[(m.ref, "dom")]
    if st.branch(dom == z3.K(sort_of_type(m.key), z3.BoolVal(False))):
        raise_("ValueError", "max() arg is an empty sequence")
    k = st.fresh("maxkey", sort_of_type(m.key))
    j = z3.Const(st.fresh_name("j"), sort_of_type(m.key))
    st.assume(z3.Select(dom, k))
    st.assume(z3.ForAll([j], z3.Implies(z3.Select(dom, j), k >= j)))
    return wrap(m.key, k)


class VHMap(V):
    """dict whose values are mutable heap objects (e.g. broker.queues: name -> DummyQueue).  Within one
    function execution lookups are supported for one symbolic key (and keys provably equal to it)."""
    kind = "hmap"

    def __init__(self, ref, key, cls):
        self.ref = ref
        self.key = key
        self.cls = cls


def hmap_lookup(ip, m: VHMap, key: V, create=True):
    st = ip.st
    cache = st.heap.get((m.ref, "cache"), ())
    for kt, obj in cache:
        if st.must(kt == kterm(ip, key)):
            return obj
    for kt, obj in cache:
        if st.feasible(kt == kterm(ip, key)):
            raise Unsupported("lookup of a second, possibly equal key in a map of heap objects")
    obj = mk_sym(st, ip.tenv, ("obj", m.cls), st.fresh_name(f"{m.cls}"))
    st.heap[(m.ref, "cache")] = tuple(cache) + ((kterm(ip, key), obj),)
    return obj


def hmap_getitem(ip, m: VHMap, key: V):
    st = ip.st
    indom = z3.Select(st.heap[(m.ref, "dom")], kterm(ip, key))
    if not ip.spec_mode and not st.branch(indom):
        raise_("KeyError")
    return hmap_lookup(ip, m, key)


def hmap_setitem(ip, m: VHMap, key: V, v: V):
    st = ip.st
    st.heap[(m.ref, "dom")] = z3.Store(st.heap[(m.ref, "dom")], kterm(ip, key), z3.BoolVal(True))
    cache = [(kt, o) for kt, o in st.heap.get((m.ref, "cache"), ()) if not st.must(kt == kterm(ip, key))]
    for kt, o in cache:
        if st.feasible(kt == kterm(ip, key)):
            raise Unsupported("assignment to a second, possibly equal key in a map of heap objects")
    st.heap[(m.ref, "cache")] = tuple(cache) + ((kterm(ip, key), v),)


def hmap_pop(ip, args, kwargs, node):
    m, key = args[0], args[1]
    st = ip.st
    indom = z3.Select(st.heap[(m.ref, "dom")], kterm(ip, key))
    if st.branch(indom):
        v = hmap_lookup(ip, m, key)
        st.heap[(m.ref, "dom")] = z3.Store(st.heap[(m.ref, "dom")], kterm(ip, key), z3.BoolVal(False))
        return v
    if len(args) > 2:
        return args[2]
    raise_("KeyError")


_install_seq = install


def install(lib):  # noqa: F811
    _install_seq(lib)
    meth = lib["__methods__"]
    for n, f in (("add", set_add), ("discard", set_discard), ("remove", set_remove), ("pop", set_pop)):
        meth[("set", n)] = VBuiltin("set." + n, f)
    for n, f in (("put", q_put), ("put_nowait", q_put_nowait), ("get_nowait", q_get_nowait), ("qsize", q_qsize), ("empty", q_empty)):
        meth[("seq", n)] = VBuiltin("Queue." + n, f)
    meth[("map", "setdefault")] = VBuiltin("dict.setdefault", m_setdefault)
    meth[("map", "update")] = VBuiltin("dict.update", m_update)
    meth[("set", "update")] = VBuiltin("set.update", set_update)
    meth[("set", "issubset")] = VBuiltin("set.issubset", set_issubset)
    meth[("map", "pop")] = VBuiltin("dict.pop", m_pop_any)
    meth[("hmap", "pop")] = VBuiltin("dict.pop", hmap_pop)
    lib["__getitem__"]["hmap"] = hmap_getitem
    lib["__setitem__"]["hmap"] = hmap_setitem
    lib["__minkey__"] = map_min_key
    lib["__maxkey__"] = map_max_key
