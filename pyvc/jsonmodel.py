"""Assumed model of JSON text: json.loads(JSONEncoder.encode(x)) == jsonify(x) for dict/list/str/int/float/bool/None,
where values of other types first go through the encoder's `default` hook - which is the REAL
_RepidJSONEncoder.default, executed by the interpreter.  isoformat/fromisoformat and repr/float are assumed inverse."""
from __future__ import annotations

import z3

from .loader import Unsupported
from .ops import raise_, to_real, round_half_even
from .values import *  # noqa: F401,F403


def jsonify(ip, v, depth=0):
    if depth > 8:
        raise Unsupported("json nesting")
    if isinstance(v, (VStr, VBool, VReal, VNoneT)):
        return v
    if isinstance(v, VInt) and v.kind == "int":
        return v
    if isinstance(v, VOpt):
        return VOpt(v.isnone, jsonify(ip, v.val, depth + 1))
    if isinstance(v, VDict):
        return ip.new_dict({k: jsonify(ip, x, depth + 1) for k, x in ip.st.heap[(v.ref, "items")].items()})
    if isinstance(v, (VList, VTuple)):
        return ip.new_list([jsonify(ip, x, depth + 1) for x in ip.items_of(v)])
    if isinstance(v, VOpaque):
        return v       # arbitrary JSON-serialisable user value: transported as is
    # anything else: the encoder's default() hook (real code)
    ci = ip.repo.cls("_RepidJSONEncoder")
    fi = ci.methods["default"]
    enc = ip.new_obj("_RepidJSONEncoder", {})
    out = ip.run_body(fi, None, [enc, v], {}, None)
    return jsonify(ip, out, depth + 1)


def deep_copy_json(ip, v):
    if isinstance(v, VDict):
        return ip.new_dict({k: deep_copy_json(ip, x) for k, x in ip.st.heap[(v.ref, "items")].items()})
    if isinstance(v, VList):
        return ip.new_list([deep_copy_json(ip, x) for x in ip.items_of(v)])
    if isinstance(v, VOpt):
        return VOpt(v.isnone, deep_copy_json(ip, v.val))
    return v


def json_encode(ip, args, kwargs, node):
    payload = jsonify(ip, args[-1])
    text = None
    if isinstance(payload, VDict):
        items = ip.st.heap[(payload.ref, "items")]
        if items and all(isinstance(v, VStr) for v in items.values()):
            # {"k":"v",...} with separators (",", ":"); string values are assumed to need no escaping
            # (true for ids accepted by VALID_ID, which is what this form is used for)
            parts = [z3.StringVal("{")]
            for i, (k, v) in enumerate(items.items()):
                parts += [z3.StringVal(("," if i else "") + '"' + str(k) + '":"'), v.term, z3.StringVal('"')]
            parts.append(z3.StringVal("}"))
            text = z3.Concat(*parts)
            ip.st.assumed_used.add("JSON text of a flat dict of strings that need no escaping is {\"k\":\"v\"}")
    s = VStr(text if text is not None else ip.st.fresh("json_text", z3.StringSort()))
    s.json = payload
    ip.st.assumed_used.add("JSON: json.loads(JSONEncoder.encode(x)) == jsonify(x) (text treated abstractly)")
    return s


def json_object_of(ip, sterm):
    """the JSON object a text decodes to, as a map str -> value (functions of the text: the same text, the same map)"""
    A = z3.ArraySort(z3.StringSort(), z3.BoolSort())
    Bv = z3.ArraySort(z3.StringSort(), Opaque)
    ref = ip.st.new_ref()
    ip.st.heap[(ref, "dom")] = z3.Function("json_object_keys", z3.StringSort(), A)(sterm)
    ip.st.heap[(ref, "val")] = z3.Function("json_object_values", z3.StringSort(), Bv)(sterm)
    # a decoded JSON value is a dict / list / str / number / bool / None - never the `inspect.Parameter.empty` sentinel
    if not getattr(ip.st, "_json_not_sentinel", None) or str(sterm) not in ip.st._json_not_sentinel:
        ip.st._json_not_sentinel = (getattr(ip.st, "_json_not_sentinel", None) or set()) | {str(sterm)}
        k = z3.Const(ip.st.fresh_name("k"), z3.StringSort())
        ip.st.assume(z3.ForAll([k], z3.Select(ip.st.heap[(ref, "val")], k) != z3.Const("inspect.Parameter.empty", Opaque)))
    return VMap(ref, ("str",), ("opaque",))


def s_json_object(ip, args, kwargs, node):
    return json_object_of(ip, args[0].term)


def json_loads(ip, args, kwargs, node):
    s = ip.unopt(args[0])
    if isinstance(s, VBytes):
        s = VStr(s.term)
    payload = getattr(s, "json", None)
    c = getattr(ip, "current_contract", None)
    if payload is None and c is not None and c.options.get("json_loads") == "object":
        # the payload of a job: arguments are sent as ONE JSON object (Job.args is a dict); invalid text raises
        if not ip.spec_mode and ip.st.choose(2, "json-error") == 1:
            raise_("JSONDecodeError")
        ip.st.assumed_used.add("payload text decodes to a JSON object (dict with string keys) or json.loads raises")
        return json_object_of(ip, s.term)
    if payload is None:
        # arbitrary text: any JSON value, or a decoding error
        if not ip.spec_mode and ip.st.choose(2, "json-error") == 1:
            raise_("JSONDecodeError")
        return VOpaque(z3.Function("json_value", z3.StringSort(), Opaque)(s.term))
    return deep_copy_json(ip, payload)


def b_asdict(ip, args, kwargs, node):
    def conv(v):
        if isinstance(v, VOpt):
            return VOpt(v.isnone, conv(v.val))
        if isinstance(v, VObj):
            ci = ip.repo.cls(v.cls)
            if ci is not None and ci.is_dataclass:
                return ip.new_dict({f[0]: conv(ip.get_field(v, f[0])) for f in ip.repo.all_fields(ci)})
        if isinstance(v, (VList, VTuple)):
            return ip.new_list([conv(x) for x in ip.items_of(v)])
        return v
    return conv(args[0])


def b_is_dataclass(ip, args, kwargs, node):
    v = args[0]
    if isinstance(v, VObj):
        ci = ip.repo.cls(v.cls)
        return VBool(bool(ci and ci.is_dataclass))
    return VBool(False)


def dt_isoformat(ip, args, kwargs, node):
    d = args[0]
    s = VStr(z3.Function("isoformat", z3.IntSort(), z3.StringSort())(d.term))
    s.iso_of = d
    ip.st.assumed_used.add("datetime.fromisoformat(d.isoformat()) == d")
    return s


def dt_fromisoformat(ip, args, kwargs, node):
    s = ip.unopt(args[0])
    src = getattr(s, "iso_of", None)
    if src is not None:
        return src
    if not ip.spec_mode and ip.st.choose(2, "iso-error") == 1:
        raise_("ValueError", "Invalid isoformat string")
    t = z3.Function("fromisoformat", z3.StringSort(), z3.IntSort())(s.term)
    from .values import DT_MAX_US, DT_MIN_US
    ip.st.assume(z3.And(t >= DT_MIN_US, t <= DT_MAX_US))
    return VInt(t, "dt")


def td_total_seconds_ieee(ip, td):
    """float(n / 10**6) with one correctly rounded division: relative error at most 2**-53"""
    d = ip.st.fresh("delta", z3.RealSort())
    eps = z3.RealVal(1) / z3.RealVal(2 ** 53)
    ip.st.assume(z3.And(d >= -eps, d <= eps))
    ip.st.assumed_used.add("IEEE-754 double model: total_seconds() = (microseconds / 10**6) * (1 + d), |d| <= 2**-53; "
                           "timedelta(seconds=float) rounds float*10**6 to the nearest microsecond exactly")
    return VReal((z3.ToReal(td.term) / 10 ** 6) * (1 + d))


def uuid4(ip, args, kwargs, node):
    """uuid4(): an object whose .hex is a fresh 32-character lowercase hex string (so it matches VALID_ID)"""
    h = ip.st.fresh("uuid_hex", z3.StringSort())
    hexre = z3.Loop(z3.Union(z3.Range("0", "9"), z3.Range("a", "f")), 32, 32)
    ip.st.assume(z3.InRe(h, hexre))
    ip.st.uses_strings = True
    ip.st.assumed_used.add("uuid4().hex is a 32-character lowercase hexadecimal string, fresh on every call")
    return ip.new_obj("UUID", {"hex": VStr(h)})


def opaque_getitem(ip, base, idx):
    """subscript of an opaque (decoded JSON) value with a concrete key: an uninterpreted projection"""
    k = ip.concrete_key(idx)
    f = z3.Function("json_get", Opaque, z3.StringSort(), Opaque)
    return VOpaque(f(base.term, z3.StringVal(str(k))))


def install(lib):
    lib["JSON_ENCODER"] = VModule("JSON_ENCODER", {"encode": VBuiltin("JSONEncoder.encode", json_encode)})
    lib["json"] = VModule("json", {"loads": VBuiltin("json.loads", json_loads),
                                   "JSONEncoder": VModule("JSONEncoder", {"default": VBuiltin("JSONEncoder.default", _base_default)})})
    lib["__getitem__"]["opaque"] = opaque_getitem
    lib["json_object"] = VBuiltin("json_object", s_json_object)
    lib["asdict"] = VBuiltin("asdict", b_asdict)
    lib["is_dataclass"] = VBuiltin("is_dataclass", b_is_dataclass)
    lib["__methods__"][("dt", "isoformat")] = VBuiltin("datetime.isoformat", dt_isoformat)
    lib["datetime"].attrs["fromisoformat"] = VBuiltin("datetime.fromisoformat", dt_fromisoformat)
    lib["uuid"] = VModule("uuid", {"uuid4": VBuiltin("uuid.uuid4", uuid4)})
    lib["uuid4"] = lib["uuid"].attrs["uuid4"]
    lib["is_installed"] = VBuiltin("is_installed", b_is_installed)
    for n in ("date", "time"):
        lib.setdefault(n, VClass("py_" + n))
    lib["__td_total_seconds_ieee__"] = td_total_seconds_ieee


def b_is_installed(ip, args, kwargs, node):
    """is_installed(package[, constraints]): False by default (pydantic models are outside the subset); a contract may ask
    for the uninterpreted predicate `installed(package, constraints)` instead (options={"is_installed": "symbolic"})"""
    c = getattr(ip, "current_contract", None)
    if c is not None and c.options.get("is_installed") == "symbolic":
        pkg = args[0].term
        cons = args[1].term if len(args) > 1 else z3.StringVal("")
        return VBool(z3.Function("installed", z3.StringSort(), z3.StringSort(), z3.BoolSort())(pkg, cons))
    return VBool(False)


def _base_default(ip, args, kwargs, node):
    raise_("TypeError", "Object is not JSON serializable")
