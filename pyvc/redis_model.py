"""Assumed command model of Redis as driven through redis-py's asyncio client (DESIGN.md 2.5).

The store is abstract: per key a list (Seq of names, index 0 = head/left), a sorted set (membership + integer score)
and a hash (field -> string).  MULTI/EXEC pipelines queue commands and apply them atomically at execute().
Everything in this file is an ASSUMPTION about the dependency; it is exercised only against the in-process fake
used by native replays, so it stays a pure assumption and is listed as such in the evidence.
"""
from __future__ import annotations

import z3

from .loader import Unsupported
from .ops import raise_
from .values import *  # noqa: F401,F403
from .values import term_of

S = z3.StringSort()
SeqS = z3.SeqSort(S)


class VRedis(V):
    kind = "redis"

    def __init__(self, ref):
        self.ref = ref


class VPipe(V):
    kind = "pipe"

    def __init__(self, ref, conn: VRedis):
        self.ref = ref
        self.conn = conn


class VPairs(V):
    """a dict display with symbolic keys, e.g. {name: score}: an ordered list of (key, value) pairs"""
    kind = "pairs"

    def __init__(self, pairs):
        self.pairs = pairs


FIELDS = {"lists": z3.ArraySort(S, SeqS), "zmem": z3.ArraySort(S, z3.ArraySort(S, z3.BoolSort())),
          "zscore": z3.ArraySort(S, z3.ArraySort(S, z3.IntSort())),
          "hmem": z3.ArraySort(S, z3.ArraySort(S, z3.BoolSort())), "hval": z3.ArraySort(S, z3.ArraySort(S, S))}


def mk_redis(st, name):
    ref = st.new_ref()
    for f, srt in FIELDS.items():
        c = z3.Const(st.fresh_name(f"{name}.{f}"), srt)
        st.heap[(ref, f)] = c
        st.input_terms[f"{name}.{f}"] = c
    return VRedis(ref)


def _s(ip, v):
    if isinstance(v, VOpt):
        v = ip.unopt(v)
    if isinstance(v, (VStr, VBytes)):
        return v.term
    raise Unsupported(f"redis argument {v!r}")


def _yield(ip, node, name, phase):
    if ip.await_hook is not None:
        from .spec import Contract
        ip.await_hook(ip, node, Contract(fn="redis." + name, assumed=True), phase)


def _note(ip, name):
    ip.st.assumed_used.add(f"assumed Redis command model: {name}")


# ------------------------------------------------------------------ single commands on the store
def apply_cmd(ip, conn: VRedis, cmd):
    st = ip.st
    h = st.heap
    op = cmd[0]
    r = conn.ref
    if op in ("lpush", "rpush"):
        k, v = cmd[1], cmd[2]
        cur = z3.Select(h[(r, "lists")], k)
        new = z3.Concat(z3.Unit(v), cur) if op == "lpush" else z3.Concat(cur, z3.Unit(v))
        h[(r, "lists")] = z3.Store(h[(r, "lists")], k, new)
    elif op == "lrem_last":       # LREM key -1 value: remove the occurrence nearest the tail
        k, v = cmd[1], cmd[2]
        cur = z3.Select(h[(r, "lists")], k)
        a = st.fresh("lrem_a", SeqS)
        b = st.fresh("lrem_b", SeqS)
        new = st.fresh("lrem_new", SeqS)
        removed = st.fresh("lrem_removed", z3.BoolSort())
        st.assume(removed == z3.Contains(cur, z3.Unit(v)))
        st.assume(z3.Implies(removed, z3.And(cur == z3.Concat(a, z3.Unit(v), b), z3.Not(z3.Contains(b, z3.Unit(v))),
                                             new == z3.Concat(a, b))))
        st.assume(z3.Implies(z3.Not(removed), new == cur))
        h[(r, "lists")] = z3.Store(h[(r, "lists")], k, new)
        return z3.If(removed, 1, 0)
    elif op == "zadd":
        k, m, score = cmd[1], cmd[2], cmd[3]
        h[(r, "zmem")] = z3.Store(h[(r, "zmem")], k, z3.Store(z3.Select(h[(r, "zmem")], k), m, z3.BoolVal(True)))
        h[(r, "zscore")] = z3.Store(h[(r, "zscore")], k, z3.Store(z3.Select(h[(r, "zscore")], k), m, score))
    elif op == "zrem":
        k, m = cmd[1], cmd[2]
        was = z3.Select(z3.Select(h[(r, "zmem")], k), m)
        h[(r, "zmem")] = z3.Store(h[(r, "zmem")], k, z3.Store(z3.Select(h[(r, "zmem")], k), m, z3.BoolVal(False)))
        return z3.If(was, 1, 0)
    elif op in ("hset", "hsetnx"):
        k, f, v = cmd[1], cmd[2], cmd[3]
        mem = z3.Select(h[(r, "hmem")], k)
        val = z3.Select(h[(r, "hval")], k)
        if op == "hsetnx":
            newv = z3.If(z3.Select(mem, f), z3.Select(val, f), v)
        else:
            newv = v
        h[(r, "hmem")] = z3.Store(h[(r, "hmem")], k, z3.Store(mem, f, z3.BoolVal(True)))
        h[(r, "hval")] = z3.Store(h[(r, "hval")], k, z3.Store(val, f, newv))
    elif op == "hdel":
        k, f = cmd[1], cmd[2]
        h[(r, "hmem")] = z3.Store(h[(r, "hmem")], k, z3.Store(z3.Select(h[(r, "hmem")], k), f, z3.BoolVal(False)))
    elif op == "delete":
        k = cmd[1]
        h[(r, "hmem")] = z3.Store(h[(r, "hmem")], k, z3.K(S, z3.BoolVal(False)))
        h[(r, "lists")] = z3.Store(h[(r, "lists")], k, z3.Empty(SeqS))
        h[(r, "zmem")] = z3.Store(h[(r, "zmem")], k, z3.K(S, z3.BoolVal(False)))
    else:
        raise Unsupported(f"redis command {op}")
    return None


# ------------------------------------------------------------------ pipeline
def r_pipeline(ip, args, kwargs, node):
    conn = args[0]
    ref = ip.st.new_ref()
    ip.st.heap[(ref, "queued")] = ()
    ip.st.heap[(ref, "transaction")] = kwargs.get("transaction", VBool(True))
    return VPipe(ref, conn)


def _queue(ip, pipe: VPipe, cmd):
    ip.st.heap[(pipe.ref, "queued")] = tuple(ip.st.heap[(pipe.ref, "queued")]) + (cmd,)
    return pipe


def _score_term(ip, v):
    """scores are passed as str(int): recover the integer"""
    if isinstance(v, VInt):
        return v.term
    t = z3.simplify(_s(ip, v))
    if z3.is_app(t) and t.decl().kind() == z3.Z3_OP_INT_TO_STR:
        return t.children()[0]
    if z3.is_app(t) and t.decl().kind() == z3.Z3_OP_ITE:
        c, a, b = t.children()
        if z3.is_app(a) and a.decl().kind() == z3.Z3_OP_INT_TO_STR:
            return z3.If(c, a.children()[0], z3.StrToInt(b))
    return z3.StrToInt(t)


def cmd_of(ip, name, args, kwargs):
    a = list(args)
    if name in ("lpush", "rpush"):
        return (name, _s(ip, a[0]), _s(ip, a[1]))
    if name == "lrem":
        cnt = ip.concrete_key(a[1])
        if cnt != -1:
            raise Unsupported("LREM with a count other than -1")
        return ("lrem_last", _s(ip, a[0]), _s(ip, a[2]))
    if name == "zadd":
        mp = a[1]
        if isinstance(mp, VPairs) and len(mp.pairs) == 1:
            m, sc = mp.pairs[0]
            return ("zadd", _s(ip, a[0]), _s(ip, m), _score_term(ip, sc))
        raise Unsupported("ZADD with other than one member")
    if name == "zrem":
        return ("zrem", _s(ip, a[0]), _s(ip, a[1]))
    if name in ("hset", "hsetnx"):
        if "mapping" in kwargs:
            mp = kwargs["mapping"]
            items = ip.st.heap[(mp.ref, "items")]
            return [("hset", _s(ip, a[0]), z3.StringVal(str(k)), _s(ip, v)) for k, v in items.items()]
        key = kwargs.get("key", a[1] if len(a) > 1 else None)
        val = kwargs.get("value", a[2] if len(a) > 2 else None)
        return (name, _s(ip, a[0]), _s(ip, key), _s(ip, val))
    if name == "hdel":
        return ("hdel", _s(ip, a[0]), _s(ip, a[1]))
    if name == "delete":
        return ("delete", _s(ip, a[0]))
    raise Unsupported(f"redis command {name}")


def make_pipe_cmd(name):
    def fn(ip, args, kwargs, node):
        pipe = args[0]
        c = cmd_of(ip, name, args[1:], kwargs)
        for one in (c if isinstance(c, list) else [c]):
            _queue(ip, pipe, one)
        return pipe
    return fn


def p_execute(ip, args, kwargs, node):
    """EXEC: all queued commands are applied atomically, in order; or the call fails and none is"""
    pipe = args[0]
    _note(ip, "MULTI/EXEC is atomic: all queued commands or none")
    _yield(ip, node, "execute", "before")
    if ip.st.choose(2, "redis-exec-fails") == 1:
        if not ip.st.ghost.get("redis_fails") is None:
            ip.st.assume(ip.st.ghost["redis_fails"].term)
        else:
            raise_("ConnectionError", "redis transaction failed")
        raise_("ConnectionError", "redis transaction failed")
    results = []
    for c in ip.st.heap[(pipe.ref, "queued")]:
        results.append(apply_cmd(ip, pipe.conn, c))
    ip.st.heap[(pipe.ref, "queued")] = ()
    ip.st.heap[(pipe.ref, "results")] = tuple(results)
    ip.st.redis_last_results = tuple(results)
    _yield(ip, node, "execute", "after")
    ip.last_builtin_awaitable = True
    return VNone


# ------------------------------------------------------------------ direct (awaited) reads
def _awaitable(ip, v):
    ip.last_builtin_awaitable = True
    ip.pending_await_value = v
    return VNone


def r_hget(ip, args, kwargs, node):
    conn, k, f = args[0], _s(ip, args[1]), _s(ip, args[2])
    _yield(ip, node, "hget", "before")
    h = ip.st.heap
    present = z3.Select(z3.Select(h[(conn.ref, "hmem")], k), f)
    val = z3.Select(z3.Select(h[(conn.ref, "hval")], k), f)
    _note(ip, "HGET")
    _yield(ip, node, "hget", "after")
    return _awaitable(ip, VOpt(z3.Not(present), VBytes(val)))


def r_hmget(ip, args, kwargs, node):
    conn, k = args[0], _s(ip, args[1])
    keys = kwargs.get("keys", args[2] if len(args) > 2 else None)
    _yield(ip, node, "hmget", "before")
    h = ip.st.heap
    out = []
    for f in ip.iterate(keys):
        ft = _s(ip, f)
        out.append(VOpt(z3.Not(z3.Select(z3.Select(h[(conn.ref, "hmem")], k), ft)),
                        VBytes(z3.Select(z3.Select(h[(conn.ref, "hval")], k), ft))))
    _note(ip, "HMGET")
    _yield(ip, node, "hmget", "after")
    return _awaitable(ip, ip.new_list(out))


def r_lrange(ip, args, kwargs, node):
    """LRANGE key start stop (inclusive, negative = from the tail, out-of-range clamped)"""
    conn, k, start, stop = args[0], _s(ip, args[1]), args[2].term, args[3].term
    _yield(ip, node, "lrange", "before")
    cur = z3.Select(ip.st.heap[(conn.ref, "lists")], k)
    n = z3.Length(cur)
    a = z3.If(start < 0, z3.If(n + start < 0, 0, n + start), start)
    b = z3.If(stop < 0, n + stop, z3.If(stop >= n, n - 1, stop))
    ln = z3.If(z3.Or(a > b, a >= n), 0, b - a + 1)
    ref = ip.st.new_ref()
    # the reply is SubSeq(cur, a, ln), stated element-wise (the solvers do not connect nth(SubSeq(s, a, n), j) with
    # nth(s, a + j) under quantifiers by themselves): a fresh sequence of that length with those elements
    res = ip.st.fresh("lrange", SeqS)
    j = z3.Int(ip.st.fresh_name("j"))
    ip.st.assume(z3.Length(res) == ln)
    ip.st.assume(z3.ForAll([j], z3.Implies(z3.And(j >= 0, j < ln), res[j] == cur[a + j]), patterns=[res[j]]))
    ip.st.assume(z3.ForAll([j], z3.Implies(z3.And(j >= a, j < a + ln), cur[j] == res[j - a]), patterns=[cur[j]]))   # the same fact, keyed by the list position
    ip.st.heap[(ref, "seq")] = res
    _note(ip, "LRANGE")
    _yield(ip, node, "lrange", "after")
    return _awaitable(ip, VSeq(ref, ("bytes",)))


def r_zrange(ip, args, kwargs, node):
    conn, k = args[0], _s(ip, args[1])
    st = ip.st
    _yield(ip, node, "zrange", "before")
    mem = z3.Select(st.heap[(conn.ref, "zmem")], k)
    score = z3.Select(st.heap[(conn.ref, "zscore")], k)
    res = st.fresh("zrange", SeqS)
    i, j = z3.Ints(st.fresh_name("i") + " " + st.fresh_name("j"))
    inb = lambda x: z3.And(x >= 0, x < z3.Length(res))  # noqa: E731
    st.assume(z3.ForAll([i], z3.Implies(inb(i), z3.Select(mem, res[i]))))
    st.assume(z3.ForAll([i, j], z3.Implies(z3.And(inb(i), inb(j), i < j),
                                           z3.And(z3.Select(score, res[i]) <= z3.Select(score, res[j]), res[i] != res[j]))))
    if kwargs.get("byscore") is not None:
        end = kwargs["end"]
        endt = end.term if isinstance(end, VInt) else _score_term(ip, end)
        num = kwargs["num"].term
        off = kwargs["offset"].term
        st.assume(z3.Length(res) <= num)
        st.assume(z3.ForAll([i], z3.Implies(inb(i), z3.Select(score, res[i]) <= endt)))
        # the first window is complete: a due member that was not returned ranks after every returned one
        m = z3.Const(st.fresh_name("m"), S)
        st.assume(z3.Implies(off == 0, z3.ForAll([m], z3.Implies(
            z3.And(z3.Select(mem, m), z3.Select(score, m) <= endt, z3.Not(z3.Contains(res, z3.Unit(m)))),
            z3.And(z3.Length(res) == num, z3.ForAll([i], z3.Implies(inb(i), z3.Select(score, res[i]) <= z3.Select(score, m))))))))
    else:
        start = kwargs.get("start", args[2] if len(args) > 2 else None).term
        end = kwargs.get("end", args[3] if len(args) > 3 else None).term
        st.assume(z3.Length(res) <= end - start + 1)
    _note(ip, "ZRANGE (by score / by rank): members in ascending score order")
    _yield(ip, node, "zrange", "after")
    ref = st.new_ref()
    st.heap[(ref, "seq")] = res
    return _awaitable(ip, VSeq(ref, ("bytes",)))


# ------------------------------------------------------------------ spec accessors (abstract view of the store)
def _spec(fn):
    return VBuiltin(fn.__name__, fn)


def r_list(ip, args, kwargs, node):
    conn, k = args[0], _s(ip, args[1])
    ref = ip.st.new_ref()
    ip.st.heap[(ref, "seq")] = z3.Select(ip.st.heap[(conn.ref, "lists")], k)
    return VSeq(ref, ("str",))


def r_zhas(ip, args, kwargs, node):
    conn, k, m = args[0], _s(ip, args[1]), _s(ip, args[2])
    return VBool(z3.Select(z3.Select(ip.st.heap[(conn.ref, "zmem")], k), m))


def r_zscore(ip, args, kwargs, node):
    conn, k, m = args[0], _s(ip, args[1]), _s(ip, args[2])
    return VInt(z3.Select(z3.Select(ip.st.heap[(conn.ref, "zscore")], k), m))


def r_hhas(ip, args, kwargs, node):
    conn, k, f = args[0], _s(ip, args[1]), _s(ip, args[2])
    return VBool(z3.Select(z3.Select(ip.st.heap[(conn.ref, "hmem")], k), f))


def r_hval(ip, args, kwargs, node):
    conn, k, f = args[0], _s(ip, args[1]), _s(ip, args[2])
    return VStr(z3.Select(z3.Select(ip.st.heap[(conn.ref, "hval")], k), f))


def r_same_except(ip, args, kwargs, node):
    """spec: the two stores (conn now, snapshot) agree on `what` everywhere except at the listed keys"""
    raise Unsupported("r_same_except")


def s_seq1(ip, args, kwargs, node):
    ref = ip.st.new_ref()
    ip.st.heap[(ref, "seq")] = z3.Unit(_s(ip, args[0]))
    return VSeq(ref, ("str",))


def s_redis_removed(ip, args, kwargs, node):
    """spec: how many elements the first queued command (LREM / ZREM) of the last EXEC removed"""
    res = getattr(ip.st, "redis_last_results", None)
    if not res or res[0] is None:
        return VInt(0)
    return VInt(res[0])


def s_seq_str(ip, args, kwargs, node):
    """spec: element j of a sequence of names (bytes) as a str"""
    sq, j = args
    return VStr(ip.st.heap[(sq.ref, "seq")][j.term])


SPEC = {"seq_str": _spec(s_seq_str), "redis_removed": _spec(s_redis_removed), "seq1": _spec(s_seq1), "r_list": _spec(r_list), "r_zhas": _spec(r_zhas), "r_zscore": _spec(r_zscore), "r_hhas": _spec(r_hhas),
        "r_hval": _spec(r_hval)}


def install(lib):
    meth = lib["__methods__"]
    meth[("redis", "pipeline")] = VBuiltin("redis.pipeline", r_pipeline)
    meth[("redis", "hget")] = VBuiltin("redis.hget", r_hget)
    meth[("redis", "hmget")] = VBuiltin("redis.hmget", r_hmget)
    meth[("redis", "lrange")] = VBuiltin("redis.lrange", r_lrange)
    meth[("redis", "zrange")] = VBuiltin("redis.zrange", r_zrange)
    for n in ("lpush", "rpush", "lrem", "zadd", "zrem", "hset", "hsetnx", "hdel", "delete"):
        meth[("pipe", n)] = VBuiltin("pipe." + n, make_pipe_cmd(n))
    meth[("pipe", "execute")] = VBuiltin("pipe.execute", p_execute)
    from . import tys
    tys.SPECIAL_TYPES["RedisConn"] = mk_redis
    lib.update(SPEC)
