"""Symbolic interpreter for the Python subset used by the functions under contract (DESIGN.md 2.4)."""
from __future__ import annotations

import ast

import z3

from .loader import ClassInfo, FuncInfo, Repo, Unsupported
from .ops import Ops, PyRaise, _and, _b, _not, _or, raise_, to_real
from .spec import Contract, SpecDB
from .state import PathInfeasible, State
from .tys import TypeEnv, mk_sym
from .values import *  # noqa: F401,F403
from .values import term_of


class _Return(Exception):
    def __init__(self, value):
        self.value = value


class _Break(Exception):
    pass


class _Continue(Exception):
    pass


class Frame:
    def __init__(self, finfo: FuncInfo | None, parent: "Frame | None" = None, cls: ClassInfo | None = None):
        self.vars: dict[str, V] = {}
        self.parent = parent
        self.finfo = finfo
        self.cls = cls if cls is not None else (finfo.cls if finfo is not None else None)
        self.nonlocals: set[str] = set()
        self.loop_ordinal = 0

    def lookup(self, name):
        f = self
        while f is not None:
            if name in f.vars:
                return f.vars[name]
            f = f.parent
        return None

    def assign(self, name, v):
        if name in self.nonlocals:
            f = self.parent
            while f is not None:
                if name in f.vars:
                    f.vars[name] = v
                    return
                f = f.parent
        self.vars[name] = v


EXC_PARENTS = {
    "BaseException": None, "Exception": "BaseException", "CancelledError": "BaseException",
    "_NoAction": "BaseException", "KeyboardInterrupt": "BaseException", "SystemExit": "BaseException",
    "ValueError": "Exception", "TypeError": "Exception", "KeyError": "LookupError", "IndexError": "LookupError",
    "LookupError": "Exception", "RuntimeError": "Exception", "TimeoutError": "OSError", "OSError": "Exception",
    "ConnectionError": "OSError", "ImportError": "Exception", "AttributeError": "Exception",
    "ZeroDivisionError": "ArithmeticError", "OverflowError": "ArithmeticError", "ArithmeticError": "Exception",
    "UnicodeDecodeError": "UnicodeError", "UnicodeError": "ValueError", "NotImplementedError": "RuntimeError",
    "QueueEmpty": "Exception", "QueueFull": "Exception", "StopAsyncIteration": "Exception",
    "JSONDecodeError": "ValueError", "ValidationError": "ValueError", "AssertionError": "Exception",
    "InvalidStateError": "Exception",
}


def exc_is_sub(a: str, b: str) -> bool:
    while a is not None:
        if a == b:
            return True
        a = EXC_PARENTS.get(a)
    return False


class Interp(Ops):
    def __init__(self, repo: Repo, db: SpecDB, st: State, lib):
        self.repo = repo
        self.db = db
        self.st = st
        self.tenv = TypeEnv(repo, db)
        self.lib = lib            # dict name -> V for library names
        self.spec_mode = False
        self.old_state = None     # (heap, ghost) snapshot stack top for old()
        self.spec_env_stack: list = []
        self.await_hook = None    # fn(interp, node, label) called at each yield point
        self.current_contract: Contract | None = None
        self.call_depth = 0
        self.await_count = 0
        self.cur_frame = None

    # ================================================================== heap helpers
    def new_list(self, items) -> VList:
        r = self.st.new_ref()
        self.st.heap[(r, "items")] = tuple(items)
        return VList(r)

    def new_dict(self, items: dict) -> VDict:
        r = self.st.new_ref()
        self.st.heap[(r, "items")] = dict(items)
        return VDict(r)

    def items_of(self, v):
        if isinstance(v, VTuple):
            return tuple(v.items)
        if isinstance(v, VList):
            return self.st.heap[(v.ref, "items")]
        raise Unsupported(f"items of {v!r}")

    def new_obj(self, cls: str, fields: dict) -> VObj:
        r = self.st.new_ref()
        for k, v in fields.items():
            self.st.heap[(r, k)] = v
        return VObj(cls, r)

    def get_field(self, o: VObj, name: str) -> V:
        if o.symbolic:
            ft = self.tenv.fields_of(o.cls).get(name)
            if ft is None:
                raise Unsupported(f"unknown field {o.cls}.{name}")
            return self.uf_field(o, name, ft)
        key = (o.ref, name)
        if key in self.st.heap:
            return self.st.heap[key]
        raise KeyError(name)

    def uf_field(self, o: VObj, name: str, ft):
        if ft[0] == "opt":
            isn = z3.Function(f"{o.cls}.{name}?none", obj_sort(o.cls), z3.BoolSort())(o.ref)
            inner = self._uf_plain(o, name, ft[1])
            return VOpt(isn, inner)
        return self._uf_plain(o, name, ft)

    def _uf_plain(self, o, name, ft):
        if ft[0] in ("obj", "symobj"):
            f = z3.Function(f"{o.cls}.{name}", obj_sort(o.cls), obj_sort(ft[1]))
            return VObj(ft[1], f(o.ref))
        f = z3.Function(f"{o.cls}.{name}", obj_sort(o.cls), sort_of_type(ft))
        return wrap(ft, f(o.ref))

    def set_field(self, o: VObj, name: str, v: V):
        if o.symbolic:
            raise Unsupported(f"assignment to field of immutable symbolic object {o.cls}.{name}")
        self.st.heap[(o.ref, name)] = v

    def deepcopy(self, v: V, memo=None) -> V:
        memo = {} if memo is None else memo
        if isinstance(v, VObj):
            if v.symbolic:
                # deep copy of an immutable symbolic object: a heap object with the same field values
                fields = {f: self.deepcopy(self.get_field(v, f), memo) for f in self.tenv.fields_of(v.cls)}
                return self.new_obj(v.cls, fields)
            if v.ref in memo:
                return memo[v.ref]
            r = self.st.new_ref()
            o = VObj(v.cls, r)
            memo[v.ref] = o
            for (ref, f), val in list(self.st.heap.items()):
                if ref == v.ref:
                    self.st.heap[(r, f)] = self.deepcopy(val, memo)
            return o
        if isinstance(v, VOpt):
            return VOpt(v.isnone, self.deepcopy(v.val, memo))
        if isinstance(v, VList):
            return self.new_list([self.deepcopy(x, memo) for x in self.items_of(v)])
        if isinstance(v, VDict):
            return self.new_dict({k: self.deepcopy(x, memo) for k, x in self.st.heap[(v.ref, "items")].items()})
        if isinstance(v, VTuple):
            return VTuple([self.deepcopy(x, memo) for x in v.items])
        return v

    # ================================================================== enums
    def enum_member(self, cls: str, name: str) -> VEnum:
        for i, (n, _v) in enumerate(self.tenv.enum_members(cls)):
            if n == name:
                return VEnum(cls, i)
        raise Unsupported(f"no member {cls}.{name}")

    def enum_value(self, e: VEnum) -> V:
        mem = self.tenv.enum_members(e.cls)
        vals = [ast.literal_eval(v) for _n, v in mem]
        idx = z3.simplify(e.term)
        if z3.is_int_value(idx):
            v = vals[idx.as_long()]
            return VStr(v) if isinstance(v, str) else VInt(v)
        if all(isinstance(v, str) for v in vals):
            t = z3.StringVal(vals[-1])
            for i in range(len(vals) - 2, -1, -1):
                t = z3.If(e.term == i, z3.StringVal(vals[i]), t)
            return VStr(t)
        t = z3.IntVal(vals[-1])
        for i in range(len(vals) - 2, -1, -1):
            t = z3.If(e.term == i, z3.IntVal(vals[i]), t)
        return VInt(t)

    def enum_name(self, e: VEnum) -> VStr:
        mem = self.tenv.enum_members(e.cls)
        t = z3.StringVal(mem[-1][0])
        for i in range(len(mem) - 2, -1, -1):
            t = z3.If(e.term == i, z3.StringVal(mem[i][0]), t)
        return VStr(z3.simplify(t))

    # ================================================================== membership
    def contains(self, container: V, x: V):
        if isinstance(container, VOpt):
            container = self.unopt(container)
        if isinstance(x, VOpt) and not isinstance(container, (VTuple, VList)):
            x = self.unopt(x)
        if isinstance(container, (VTuple, VList)):
            return _or([self.eq(x, y) for y in self.items_of(container)])
        if isinstance(container, VDict):
            d = self.st.heap[(container.ref, "items")]
            try:
                kx = self.concrete_key(x)
            except Unsupported:
                if isinstance(x, VStr):
                    return _or([x.term == z3.StringVal(k) for k in d if isinstance(k, str)])
                raise
            return kx in d
        if isinstance(container, VSet):
            return z3.Select(self.st.heap[(container.ref, "set")], term_of(x))
        if isinstance(container, VMap) or getattr(container, "kind", "") == "hmap":
            return z3.Select(self.st.heap[(container.ref, "dom")], term_of(x))
        if isinstance(container, VSeq):
            xt = term_of(x)
            if container.elem[0] in ("opaque", "func") and isinstance(x, VStr):
                xt = z3.Function("box_str", z3.StringSort(), Opaque)(x.term)   # a str among arbitrary objects
            sq = self.st.heap[(container.ref, "seq")]
            b = z3.Contains(sq, z3.Unit(xt))
            cc = getattr(self, "current_contract", None)
            if cc is not None and getattr(cc, "seq_lemmas", False) and not self.spec_mode:
                # membership stated element-wise as well (Skolem witness / universal negation): theorems of seq.contains
                w = self.st.fresh("where", z3.IntSort())
                j = z3.Int(self.st.fresh_name("j"))
                self.st.assume(z3.Implies(b, z3.And(w >= 0, w < z3.Length(sq), sq[w] == xt)))
                self.st.assume(z3.Implies(z3.Not(b), z3.ForAll([j], z3.Implies(z3.And(j >= 0, j < z3.Length(sq)), sq[j] != xt), patterns=[sq[j]])))
            return b
        if getattr(container, "kind", "") == "iter" and getattr(container, "what", "") == "values" and isinstance(container.base, VMap):
            m = container.base
            k = z3.Const(self.st.fresh_name("k"), sort_of_type(m.key))
            return z3.Exists([k], z3.And(z3.Select(self.st.heap[(m.ref, "dom")], k),
                                         z3.Select(self.st.heap[(m.ref, "val")], k) == term_of(x)))
        if isinstance(container, VStr) and isinstance(x, VStr):
            return z3.Contains(container.term, x.term)
        if getattr(container, "kind", "") == "bytearray" and isinstance(x, VBytes):
            return z3.Contains(self.st.heap[(container.ref, "content")], x.term)
        raise Unsupported(f"membership in {container!r}")

    def concrete_key(self, v: V):
        if isinstance(v, VEnum):
            t = z3.simplify(v.term)
            if z3.is_int_value(t):
                return ("enum", v.cls, t.as_long())
        if isinstance(v, VStr):
            c = v.concrete()
            if c is not None:
                return c
        if isinstance(v, VInt):
            t = z3.simplify(v.term)
            if z3.is_int_value(t):
                return t.as_long()
        raise Unsupported(f"dict key is not concrete: {v!r}")

    # ================================================================== expressions
    def eval(self, e: ast.expr, fr: Frame) -> V:
        m = getattr(self, "e_" + type(e).__name__, None)
        if m is None:
            raise Unsupported(f"unsupported expression {type(e).__name__}: {ast.unparse(e)[:80]}")
        return m(e, fr)

    def e_Constant(self, e, fr):
        v = e.value
        if v is None:
            return VNone
        if isinstance(v, bool):
            return VBool(v)
        if isinstance(v, int):
            return VInt(v)
        if isinstance(v, float):
            return VReal(z3.RealVal(repr(v)))
        if isinstance(v, str):
            return VStr(v)
        if isinstance(v, bytes):
            return VBytes(z3.StringVal(v.decode("latin-1")))
        if v is Ellipsis:
            return VNone
        raise Unsupported(f"constant {v!r}")

    def e_Name(self, e, fr):
        return self.lookup_name(e.id, fr)

    def lookup_name(self, name: str, fr: Frame) -> V:
        v = fr.lookup(name)
        if v is not None:
            return v
        # spec environment (params, result, lets)
        for env in reversed(self.spec_env_stack):
            if name in env:
                return env[name]
        # module level of the function's module
        f = fr
        while f is not None and f.finfo is None:
            f = f.parent
        mod = f.finfo.module if f is not None else None
        if mod is not None:
            if name in mod.classes:
                return VClass(mod.classes[name].name)
            imp = self.repo.resolve_import(mod, name) if name in mod.imports else None
            if imp is not None and imp[0] == "class":
                return VClass(imp[1].name)
            if imp is not None and imp[0] == "func" and name not in self.lib:
                return VClosure(imp[1], None)
            if imp is not None and imp[0] == "module":
                m2 = imp[1]
                return VModule(m2.path, {fn: VClosure(fi, None) for fn, fi in m2.functions.items() if "." not in fn})
            rx = self.regex_constant(name)
            if rx is not None:
                return rx
            if name in mod.functions and "." not in name:
                return VClosure(mod.functions[name], None)
            if name in mod.globals and name not in self.lib:
                return self.eval_module_const(mod, name)
        if name in self.lib:
            return self.lib[name]
        if self.repo.cls(name) is not None:
            return VClass(name)
        if name in self.db.shapes or name in self.db.extern_classes:
            return VClass(name)
        if self.db.lookup(name) is not None:
            return VContractFn(name)
        rx = self.regex_constant(name)
        if rx is not None:
            return rx
        raise Unsupported(f"unknown name {name!r}")

    def regex_constant(self, name):
        """VALID_ID / VALID_NAME: read the pattern from the tree and translate it"""
        try:
            mod = self.repo.module("repid/_utils/regex_validators.py")
        except Unsupported:
            return None
        node = mod.globals.get(name)
        if node is None or not (isinstance(node, ast.Call) and ast.unparse(node.func) == "re.compile"):
            return None
        from .regex import compile_re
        pat = ast.literal_eval(node.args[0])
        rx = compile_re(pat)

        def fullmatch(ip, args, kwargs, n):
            s = ip.unopt(args[0])
            ip.st.uses_strings = True
            return VOpt(z3.Not(z3.InRe(s.term, rx)), VObj("re.Match", 0))     # a match object is always truthy
        return VModule("regex:" + name, {"fullmatch": VBuiltin(name + ".fullmatch", fullmatch)})

    def eval_module_const(self, mod, name):
        node = mod.globals[name]
        fr = Frame(None)
        fr.finfo = None
        try:
            return self.eval(node, Frame(FuncInfo("<module>", mod.path, node, None, mod, [], "")))
        except Unsupported as exc:
            raise Unsupported(f"module constant {name}: {exc}") from exc

    def e_NamedExpr(self, e, fr):
        v = self.eval(e.value, fr)
        fr.assign(e.target.id, v)
        return v

    def e_Tuple(self, e, fr):
        return VTuple(self.eval_elts(e.elts, fr))

    def e_List(self, e, fr):
        return self.new_list(self.eval_elts(e.elts, fr))

    def eval_elts(self, elts, fr):
        out = []
        for x in elts:
            if isinstance(x, ast.Starred):
                out.extend(self.iterate(self.eval(x.value, fr)))
            else:
                out.append(self.eval(x, fr))
        return out

    def e_Set(self, e, fr):
        return VTuple(self.eval_elts(e.elts, fr))  # literal sets are only used for membership / iteration

    def e_Dict(self, e, fr):
        d = {}
        for k, v in zip(e.keys, e.values):
            if k is None:
                inner = self.eval(v, fr)
                if not isinstance(inner, VDict):
                    raise Unsupported("** of a non-concrete dict")
                d.update(self.st.heap[(inner.ref, "items")])
            else:
                kv = self.eval(k, fr)
                try:
                    d[self.concrete_key(kv)] = self.eval(v, fr)
                except Unsupported:
                    if len(e.keys) != 1:
                        raise
                    from .redis_model import VPairs
                    return VPairs([(kv, self.eval(v, fr))])
        return self.new_dict(d)

    def e_JoinedStr(self, e, fr):
        parts = []
        for p in e.values:
            if isinstance(p, ast.Constant):
                parts.append(z3.StringVal(p.value))
            else:
                if p.format_spec is not None or p.conversion not in (-1, 115):
                    raise Unsupported("format spec in f-string")
                parts.append(self.to_str(self.eval(p.value, fr)).term)
        if not parts:
            return VStr("")
        if len(parts) == 1:
            return VStr(parts[0])
        return VStr(z3.Concat(*parts))

    def to_str(self, v: V) -> VStr:
        if isinstance(v, VStr):
            return v
        if isinstance(v, VInt) and v.kind == "int":
            # str(int): decimal digits; z3's int.to.str is defined for non-negative ints
            return VStr(z3.If(v.term >= 0, z3.IntToStr(v.term), z3.Concat(z3.StringVal("-"), z3.IntToStr(-v.term))))
        if isinstance(v, VEnum):
            ci = self.repo.cls(v.cls)
            if "IntEnum" in ci.bases:
                return self.to_str(self.enum_value(v))   # format() of IntEnum is the number (3.8 .. 3.12)
            if "str" in ci.bases:
                # f"{StrEnumMember}": 3.11+ uses Enum.__str__ for mixed-in str -> 'Class.NAME'
                return VStr(z3.Concat(z3.StringVal(v.cls + "."), self.enum_name(v).term))
            return VStr(z3.Concat(z3.StringVal(v.cls + "."), self.enum_name(v).term))
        if isinstance(v, VOpaque):
            f = z3.Function("str_of", Opaque, z3.StringSort())
            return VStr(f(v.term))
        if isinstance(v, VExc) and v.term is not None:
            f = z3.Function("str_of", Opaque, z3.StringSort())
            return VStr(f(v.term))
        if isinstance(v, VBool):
            return VStr(z3.If(v.term, z3.StringVal("True"), z3.StringVal("False")))
        if isinstance(v, VOpt):
            inner = self.to_str(v.val)
            return VStr(z3.If(v.isnone, z3.StringVal("None"), inner.term))
        if isinstance(v, VNoneT):
            return VStr("None")
        raise Unsupported(f"str() of {v!r}")

    def e_IfExp(self, e, fr):
        c = self.truth(self.eval(e.test, fr))
        if self.spec_mode:
            if not isinstance(c, bool):
                cs = z3.simplify(c)
                c = True if z3.is_true(cs) else (False if z3.is_false(cs) else c)
            if isinstance(c, bool):
                return self.eval(e.body if c else e.orelse, fr)
            a = self.eval(e.body, fr)
            b = self.eval(e.orelse, fr)
            return self.ite(c, a, b)
        if self.st.branch(_b(c)):
            return self.eval(e.body, fr)
        return self.eval(e.orelse, fr)

    def ite(self, c, a: V, b: V) -> V:
        if isinstance(a, VNoneT) and isinstance(b, VNoneT):
            return VNone
        if isinstance(a, VNoneT) or isinstance(b, VNoneT) or isinstance(a, VOpt) or isinstance(b, VOpt):
            ao = a if isinstance(a, VOpt) else (VOpt(z3.BoolVal(True), None) if isinstance(a, VNoneT) else VOpt(z3.BoolVal(False), a))
            bo = b if isinstance(b, VOpt) else (VOpt(z3.BoolVal(True), None) if isinstance(b, VNoneT) else VOpt(z3.BoolVal(False), b))
            if ao.val is None:
                ao = VOpt(ao.isnone, bo.val)
            if bo.val is None:
                bo = VOpt(bo.isnone, ao.val)
            return VOpt(z3.If(c, ao.isnone, bo.isnone), self.ite(c, ao.val, bo.val))
        if isinstance(a, VInt) and isinstance(b, VInt) and a.kind == b.kind:
            return VInt(z3.If(c, a.term, b.term), a.kind)
        if isinstance(a, VBool) and isinstance(b, VBool):
            return VBool(z3.If(c, a.term, b.term))
        if isinstance(a, VStr) and isinstance(b, VStr):
            return VStr(z3.If(c, a.term, b.term))
        if isinstance(a, (VInt, VReal)) and isinstance(b, (VInt, VReal)):
            return VReal(z3.If(c, to_real(a), to_real(b)))
        if isinstance(a, VEnum) and isinstance(b, VEnum) and a.cls == b.cls:
            return VEnum(a.cls, z3.If(c, a.term, b.term))
        if isinstance(a, VOpaque) and isinstance(b, VOpaque):
            return VOpaque(z3.If(c, a.term, b.term))
        if isinstance(a, VObj) and isinstance(b, VObj) and a.symbolic and b.symbolic and a.cls == b.cls:
            return VObj(a.cls, z3.If(c, a.ref, b.ref))
        if isinstance(a, VTuple) and isinstance(b, VTuple) and len(a.items) == len(b.items):
            return VTuple([self.ite(c, x, y) for x, y in zip(a.items, b.items)])
        raise Unsupported(f"if-expression over {a!r} / {b!r} in a specification")

    def e_BoolOp(self, e, fr):
        is_and = isinstance(e.op, ast.And)
        if self.spec_mode:
            vals = []
            for x in e.values:
                v = self.eval(x, fr)
                vals.append(v)
                if isinstance(v, VBool):
                    tv = z3.simplify(v.term)
                    if (z3.is_true(tv) and not is_and) or (z3.is_false(tv) and is_and):
                        return VBool(not is_and)     # decided by this operand: the rest is not evaluated
            if all(isinstance(v, VBool) for v in vals):
                ts = [v.term for v in vals]
                return VBool(z3.And(*ts) if is_and else z3.Or(*ts))
            # value-returning and/or in specs (e.g. `a or b` on optionals)
            res = vals[-1]
            for v in reversed(vals[:-1]):
                t = _b(self.truth(v))
                res = self.ite(t, res, v) if is_and else self.ite(t, v, res)
            return res
        last = None
        for i, x in enumerate(e.values):
            last = self.eval(x, fr)
            if i == len(e.values) - 1:
                return last
            t = self.truth(last)
            taken = self.st.branch(_b(t))
            if is_and and not taken:
                return self.falsy_repr(last)
            if not is_and and taken:
                return self.truthy_repr(last)
        return last

    def falsy_repr(self, v):
        if isinstance(v, VOpt):
            # falsy optional: either None or a falsy payload; keep it as is
            return v
        return v

    def truthy_repr(self, v):
        if isinstance(v, VOpt):
            return v.val  # path condition already implies not-none
        return v

    def e_UnaryOp(self, e, fr):
        op = {ast.Not: "not", ast.USub: "-", ast.UAdd: "+"}.get(type(e.op))
        if op is None:
            raise Unsupported("unary operator")
        return self.unary(op, self.eval(e.operand, fr))

    BINOPS = {ast.Add: "+", ast.Sub: "-", ast.Mult: "*", ast.FloorDiv: "//", ast.Mod: "%", ast.Div: "/",
              ast.Pow: "**"}

    def e_BinOp(self, e, fr):
        op = self.BINOPS.get(type(e.op))
        if op is None:
            raise Unsupported(f"binary operator {type(e.op).__name__}")
        return self.binop(op, self.eval(e.left, fr), self.eval(e.right, fr))

    CMPOPS = {ast.Eq: "==", ast.NotEq: "!=", ast.Lt: "<", ast.LtE: "<=", ast.Gt: ">", ast.GtE: ">=",
              ast.Is: "is", ast.IsNot: "is not", ast.In: "in", ast.NotIn: "not in"}

    def e_Compare(self, e, fr):
        left = self.eval(e.left, fr)
        terms = []
        for op, right in zip(e.ops, e.comparators):
            r = self.eval(right, fr)
            terms.append(self.compare(self.CMPOPS[type(op)], left, r))
            left = r
        return VBool(_b(_and(terms)))

    def e_Lambda(self, e, fr):
        return VLambda(e, fr)

    def e_Starred(self, e, fr):
        raise Unsupported("starred expression outside a call")

    # ------------------------------------------------------------------ attribute access
    def mangle(self, attr: str, fr: Frame) -> str:
        if attr.startswith("__") and not attr.endswith("__") and fr.cls is not None:
            return "_" + fr.cls.pyname.lstrip("_") + attr
        return attr

    def e_Attribute(self, e, fr):
        base = self.eval(e.value, fr)
        return self.getattr(base, self.mangle(e.attr, fr), fr, node=e)

    def getattr(self, base: V, attr: str, fr: Frame | None = None, node=None) -> V:
        if isinstance(base, VOpt):
            base = self.unopt_attr(base, attr)
        if isinstance(base, VNoneT):
            raise_("AttributeError", f"None.{attr}")
        if isinstance(base, VObj):
            return self.obj_getattr(base, attr)
        if isinstance(base, VModule):
            if attr in base.attrs:
                return base.attrs[attr]
            raise Unsupported(f"unmodelled {base.name}.{attr}")
        if getattr(base, "kind", "") == "redis" and self.spec_mode and (base.ref, attr) in self.st.heap:
            return VRaw(self.st.heap[(base.ref, attr)])
        if isinstance(base, VClass):
            return self.class_getattr(base, attr)
        if isinstance(base, VSuper):
            ci = self.repo.cls(base.after_cls)
            dyn = self.repo.cls(base.obj.cls)
            fi = self.repo.find_method(dyn, attr, after=ci)
            if fi is None:
                raise Unsupported(f"super().{attr} not found")
            return VMethod(base.obj, fi.cls.name, attr, fi)
        if isinstance(base, VEnum):
            if attr == "value":
                return self.enum_value(base)
            if attr == "name":
                return self.enum_name(base)
        if isinstance(base, VExc):
            if attr in base.fields:
                return base.fields[attr]
            raise Unsupported(f"exception attribute {attr}")
        if isinstance(base, VTuple) and hasattr(base, "names") and attr in base.names:
            return base.items[base.names.index(attr)]
        a = self.lib.get("__attrs__", {}).get((base.kind, attr))
        if a is not None:
            return a(self, base)
        m = self.lib.get("__methods__", {}).get((base.kind, attr))
        if m is not None:
            return VPartial(m, [base], {})
        if isinstance(base, VOpaque):
            # attribute of an opaque value: an uninterpreted function of it (pure read)
            if base.tag and self.db.lookup(f"{base.tag}.{attr}") is not None:
                return VMethod(base, base.tag, attr)
            f = z3.Function(f"attr.{attr}", Opaque, Opaque)
            return VOpaque(f(base.term))
        raise Unsupported(f"attribute {attr} of {base!r}")

    def unopt_attr(self, base: VOpt, attr: str) -> V:
        if self.spec_mode:
            return base.val
        if self.st.branch(base.isnone):
            raise_("AttributeError", f"None.{attr}")
        return base.val

    def obj_getattr(self, o: VObj, attr: str) -> V:
        # instance field?
        if o.symbolic:
            if attr in self.tenv.fields_of(o.cls):
                return self.get_field(o, attr)
        elif (o.ref, attr) in self.st.heap:
            hv = self.st.heap[(o.ref, attr)]
            if isinstance(hv, VObj) and hv.cls == "_middleware_wrapper" and not self.spec_mode \
                    and self.find_contract_for_method(o.cls, attr) is not None:
                hv = VObj(hv.cls, hv.ref)
                hv.origin = (o, attr)    # remembered so that *calling* it resolves to the operation's contract
            return hv
        ci = self.repo_class_of(o.cls)
        if ci is not None:
            fi = self.repo.find_method(ci, attr)
            if fi is None and attr.startswith("_") and "__" in attr[1:]:
                # privately mangled method name: _Class__name
                for c2 in self.repo.mro(ci):
                    pre = "_" + c2.pyname.lstrip("_") + "__"
                    if attr.startswith(pre) and ("__" + attr[len(pre):]) in c2.methods:
                        fi = c2.methods["__" + attr[len(pre):]]
                        break
            if fi is not None:
                if "property" in fi.decorators:
                    return self.call_function(VMethod(o, o.cls, attr, fi), [], {}, None, is_property=True)
                if "staticmethod" in fi.decorators:
                    return VMethod(None, o.cls, attr, fi)
                if "classmethod" in fi.decorators:
                    return VMethod(VClass(o.cls), o.cls, attr, fi)
                return VMethod(o, o.cls, attr, fi)
            ca = self.repo.find_class_attr(ci, attr)
            if ca is not None:
                c, node = ca
                key = ("classattr", c.name, attr)
                if key in self.st.heap:
                    return self.st.heap[key]
                val = self.eval(node, Frame(FuncInfo("<class>", c.path, node, c, c.module, [], ""), cls=c))
                if getattr(val, "kind", "") == "bytearray" or isinstance(val, (VList, VDict)):
                    # a mutable object built in the class body: ONE object shared by all instances
                    if hasattr(val, "class_level"):
                        val.class_level = True
                    self.st.heap[key] = val
                return val
        # method known only through a contract (abstract / external classes)
        if self.find_contract_for_method(o.cls, attr) is not None:
            c = self.find_contract_for_method(o.cls, attr)
            if c.params is not None and c.params[:1] != ["self"]:
                return VMethod(None, o.cls, attr)
            if getattr(c, "is_property", False):
                return self.call_function(VMethod(o, o.cls, attr), [], {}, None, is_property=True)
            return VMethod(o, o.cls, attr)
        if not o.symbolic and attr in self.tenv.fields_of(o.cls):
            raise_("AttributeError", f"{o.cls}.{attr} is not set")
        if not o.symbolic and ci is not None:
            dv = self.init_derived_value(ci, attr, o)
            if dv is not None:
                self.st.heap[(o.ref, attr)] = dv
                self.st.notes.append(f"attribute {o.cls}.{attr} derived from other attributes as in __init__ (not in the sidecar shape)")
                return dv
            t = self.init_assigned_type(ci, attr)
            if t is not None:
                # an instance attribute the sidecar does not know: assigned in __init__ from an annotated parameter
                v = mk_sym(self.st, self.tenv, t, self.st.fresh_name(f"{o.cls}.{attr}"))
                self.st.heap[(o.ref, attr)] = v
                self.st.notes.append(f"attribute {o.cls}.{attr} taken from __init__ (not in the sidecar shape)")
                return v
        raise Unsupported(f"attribute {o.cls}.{attr}")

    def init_derived_value(self, ci, attr, o):
        """`self.attr = <pure expression over other attributes of self>` in __init__ (no parameter involved): an attribute the
        sidecar does not know is that expression of the object's current attributes (a cache computed once at construction)"""
        init = self.repo.find_method(ci, "__init__")
        if init is None:
            return None
        params = {a.arg for a in (init.node.args.posonlyargs + init.node.args.args + init.node.args.kwonlyargs)} - {"self"}
        for st_ in ast.walk(init.node):
            tgt = None
            if isinstance(st_, ast.Assign) and len(st_.targets) == 1:
                tgt, val = st_.targets[0], st_.value
            elif isinstance(st_, ast.AnnAssign) and st_.value is not None:
                tgt, val = st_.target, st_.value
            if tgt is None or not (isinstance(tgt, ast.Attribute) and isinstance(tgt.value, ast.Name) and tgt.value.id == "self"
                                   and tgt.attr == attr):
                continue
            names = {n.id for n in ast.walk(val) if isinstance(n, ast.Name)}
            if names & params or "self" not in names:
                return None
            if any(isinstance(n, (ast.Await, ast.Call)) and not (isinstance(n, ast.Call) and isinstance(n.func, ast.Name)
                                                                    and n.func.id in ("tuple", "frozenset", "set", "list", "len", "sorted"))
                   for n in ast.walk(val) if isinstance(n, (ast.Await, ast.Call))):
                return None
            fr = Frame(init, None, cls=ci)
            fr.vars["self"] = o
            saved = self.spec_mode
            self.spec_mode = True
            try:
                return self.eval(val, fr)
            except (Unsupported, PyRaise):
                return None
            finally:
                self.spec_mode = saved
        return None

    def init_assigned_type(self, ci, attr):
        init = self.repo.find_method(ci, "__init__")
        if init is None:
            return None
        anns = {a.arg: a.annotation for a in (init.node.args.posonlyargs + init.node.args.args + init.node.args.kwonlyargs)}
        for st_ in ast.walk(init.node):
            if isinstance(st_, ast.AnnAssign) and isinstance(st_.target, ast.Attribute) and isinstance(st_.target.value, ast.Name) \
                    and st_.target.value.id == "self" and st_.target.attr == attr:
                try:
                    return self.tenv.parse(st_.annotation)      # `self.x: T = ...` in __init__: the declared type
                except Unsupported:
                    return None
            if isinstance(st_, ast.Assign) and len(st_.targets) == 1 and isinstance(st_.targets[0], ast.Attribute) \
                    and isinstance(st_.targets[0].value, ast.Name) and st_.targets[0].value.id == "self" \
                    and st_.targets[0].attr == attr:
                names = [n.id for n in ast.walk(st_.value) if isinstance(n, ast.Name) and anns.get(n.id) is not None]
                if len(set(names)) != 1:
                    return None
                try:
                    t = self.tenv.parse(anns[names[0]])
                except Unsupported:
                    return None
                if isinstance(st_.value, ast.IfExp) and t[0] == "opt" and any(
                        isinstance(b, ast.Constant) and b.value is not None for b in (st_.value.body, st_.value.orelse)):
                    t = t[1]        # `default if p is None else p`: never None
                return t
        return None

    def class_getattr(self, c: VClass, attr: str) -> V:
        ci = self.repo.cls(c.name)
        if ci is not None:
            if ci.is_enum:
                return self.enum_member(c.name, attr)
            fi = self.repo.find_method(ci, attr)
            if fi is not None:
                if "classmethod" in fi.decorators:
                    return VMethod(c, c.name, attr, fi)
                return VMethod(None, c.name, attr, fi)
            ca = self.repo.find_class_attr(ci, attr)
            if ca is not None:
                cc, node = ca
                return self.eval(node, Frame(FuncInfo("<class>", cc.path, node, cc, cc.module, [], ""), cls=cc))
        if self.db.lookup(f"{c.name}.{attr}") is not None:
            return VMethod(None, c.name, attr)
        cattrs = self.lib.get("__classattrs__", {})
        if (c.name, attr) in cattrs:
            return cattrs[(c.name, attr)]
        raise Unsupported(f"class attribute {c.name}.{attr}")

    def repo_class_of(self, cls: str):
        """the ClassInfo of cls, or of the first repository class among the bases of a sidecar-only class"""
        ci = self.repo.cls(cls)
        if ci is not None:
            return ci
        for b in self._ext_bases(cls):
            ci = self.repo.cls(b)
            if ci is not None:
                return ci
        return None

    def find_contract_for_method(self, cls: str, name: str) -> Contract | None:
        ci = self.repo.cls(cls)
        if ci is not None:
            names = [c.name for c in self.repo.mro(ci)]
        else:
            names = [cls]
            for b in self._ext_bases(cls):
                bi = self.repo.cls(b)
                names += [c.name for c in self.repo.mro(bi)] if bi is not None else [b]
        for n in names:
            c = self.db.lookup(f"{n}.{name}")
            if c is not None:
                return c
        return None

    def _ext_bases(self, cls):
        out = []
        for b in self.db.extern_classes.get(cls, {}).get("bases", []):
            out.append(b)
            out.extend(self._ext_bases(b))
        return out

    # ------------------------------------------------------------------ subscripts
    def e_Subscript(self, e, fr):
        base = self.eval(e.value, fr)
        if isinstance(e.slice, ast.Slice):
            return self.slice(base, e.slice, fr)
        idx = self.eval(e.slice, fr)
        return self.getitem(base, idx)

    def getitem(self, base: V, idx: V) -> V:
        base = self.unopt(base) if isinstance(base, VOpt) else base
        if isinstance(base, (VTuple, VList)):
            items = self.items_of(base)
            i = self.concrete_key(idx)
            if not isinstance(i, int):
                raise_("TypeError", "index")
            if i < -len(items) or i >= len(items):
                raise_("IndexError")
            return items[i]
        if isinstance(base, VDict):
            d = self.st.heap[(base.ref, "items")]
            if isinstance(idx, VEnum) and not z3.is_int_value(z3.simplify(idx.term)):
                # dispatch table keyed by enum members, looked up with a symbolic member: one path per member
                for k in d:
                    if isinstance(k, tuple) and k[0] == "enum" and k[1] == idx.cls and self.st.branch(idx.term == k[2]):
                        return d[k]
                raise_("KeyError", "enum member not in dict")
            k = self.concrete_key(idx)
            if k not in d:
                raise_("KeyError", repr(k))
            return d[k]
        m = self.lib.get("__getitem__", {}).get(base.kind)
        if m is not None:
            return m(self, base, idx)
        raise Unsupported(f"subscript of {base!r}")

    def slice(self, base, sl, fr):
        m = self.lib.get("__slice__", {}).get(base.kind)
        if m is None:
            raise Unsupported(f"slice of {base!r}")
        lo = self.eval(sl.lower, fr) if sl.lower is not None else None
        hi = self.eval(sl.upper, fr) if sl.upper is not None else None
        if sl.step is not None:
            raise Unsupported("slice step")
        return m(self, base, lo, hi)

    # ------------------------------------------------------------------ comprehensions (concrete iterables)
    def e_ListComp(self, e, fr):
        sym = self.symbolic_comp(e, fr, "list")
        if sym is not None:
            return sym
        return self.new_list(self.comp(e, fr))

    def symbolic_comp(self, e, fr, kind):
        """[elt for x in <symbolic collection>] / {k: v for x in <symbolic collection>} used as a VALUE: executed as the loop
        `acc = []; for x in it: acc.append(elt)` under a sidecar invariant keyed by the comprehension's source text
        (loops={"comp <source>": LoopInv(..., ghost={"acc": <type of the result>})}); the accumulator is `__comp`"""
        if len(e.generators) != 1 or e.generators[0].is_async:
            return None
        g = e.generators[0]
        it = self.eval(g.iter, fr)
        try:
            self.iterate(it)
            return None               # concrete iterable: ordinary evaluation
        except Unsupported:
            pass
        c = self.current_contract
        key = "comp " + ast.unparse(e)
        inv = c.loops.get(key) if c is not None else None
        if inv is None and c is not None:
            # the same comprehension with a changed filter: still the sidecar's loop (its invariant decides)
            head = ast.unparse(e)
            head = head[:head.index(" for ")] + " for " + ast.unparse(g.target) + " in " + ast.unparse(g.iter)
            cands = [k for k in c.loops if isinstance(k, str) and k.startswith("comp " + head)]
            if len(cands) == 1:
                key = cands[0]
                inv = c.loops[key]
        if inv is None:
            raise Unsupported(f"comprehension over a symbolic collection needs an invariant in the sidecar: loops[{key!r}]")
        acc_t = inv.ghost.get("acc")
        if acc_t is None:
            raise Unsupported(f"{key}: ghost['acc'] (type of the result) missing")
        from .tys import mk_sym
        t = self.tenv.parse(acc_t)
        acc = mk_sym(self.st, self.tenv, t, self.st.fresh_name("__comp"))
        if isinstance(acc, VSeq):
            self.st.heap[(acc.ref, "seq")] = z3.Empty(self.st.heap[(acc.ref, "seq")].sort())
        elif isinstance(acc, VMap):
            self.st.heap[(acc.ref, "dom")] = z3.K(self.st.heap[(acc.ref, "dom")].sort().domain(), z3.BoolVal(False))
        else:
            raise Unsupported(f"{key}: accumulator type {acc_t}")
        fr.vars["__comp"] = acc
        name = ast.Name(id="__comp", ctx=ast.Load())
        if kind == "list":
            body = ast.Expr(value=ast.Call(func=ast.Attribute(value=name, attr="append", ctx=ast.Load()), args=[e.elt], keywords=[]))
        else:
            body = ast.Assign(targets=[ast.Subscript(value=name, slice=e.key, ctx=ast.Store())], value=e.value)
        if g.ifs:
            test = g.ifs[0] if len(g.ifs) == 1 else ast.BoolOp(op=ast.And(), values=list(g.ifs))
            body = ast.If(test=test, body=[body], orelse=[])
        loop = ast.For(target=g.target, iter=g.iter, body=[body], orelse=[])
        ast.copy_location(loop, e)
        ast.fix_missing_locations(loop)
        loop._comp_src = ast.unparse(e)
        loop._comp_id = id(e)
        loop._comp_key = key
        self.symbolic_loop(loop, fr, it)
        return fr.vars["__comp"]

    def keys_where(self, e, fr):
        """(k for k, v in m.items() if cond(k, v)) over a symbolic map with elt == k: the set {k in m | cond}"""
        g = e.generators[0]
        if not (isinstance(g.target, ast.Tuple) and len(g.target.elts) == 2 and all(isinstance(x, ast.Name) for x in g.target.elts)):
            return None
        kn, vn = (x.id for x in g.target.elts)
        if not (isinstance(e.elt, ast.Name) and e.elt.id == kn):
            return None
        it = self.eval(g.iter, fr)
        if not (getattr(it, "kind", "") == "iter" and it.what == "items" and isinstance(it.base, VMap)):
            return None
        m = self.filter_map(it.base, kn, vn, g.ifs, fr)
        ref = self.st.new_ref()
        self.st.heap[(ref, "set")] = self.st.heap[(m.ref, "dom")]
        return VSet(ref, m.key)

    def e_GeneratorExp(self, e, fr):
        if len(e.generators) == 1 and not e.generators[0].is_async:
            ks = self.keys_where(e, fr)
            if ks is not None:
                return ks
        if len(e.generators) == 1 and isinstance(e.generators[0].target, ast.Name):
            it = self.eval(e.generators[0].iter, fr)
            if isinstance(it, VSet):
                from .loops import VMapped
                m = VMapped(it, e.generators[0].target.id, e.elt, fr)
                m.conds = list(e.generators[0].ifs)      # (f(x) for x in S if c(x)): consumed by next() / any() only
                return m
        return self.new_list(self.comp(e, fr))

    def e_SetComp(self, e, fr):
        return VTuple(self.comp(e, fr))

    def comp(self, e, fr, pair=False):
        out = []
        inner = Frame(fr.finfo, fr, cls=fr.cls)

        def rec(gi):
            if gi == len(e.generators):
                if pair:
                    out.append((self.eval(e.key, inner), self.eval(e.value, inner)))
                else:
                    out.append(self.eval(e.elt, inner))
                return
            g = e.generators[gi]
            if g.is_async:
                raise Unsupported("async comprehension")
            for item in self.iterate(self.eval(g.iter, inner if gi else fr)):
                self.assign_target(g.target, item, inner)
                ok = True
                for cond in g.ifs:
                    t = self.truth(self.eval(cond, inner))
                    if not isinstance(t, bool):
                        t = z3.simplify(t)
                        t = True if z3.is_true(t) else (False if z3.is_false(t) else t)
                    if self.spec_mode and not isinstance(t, bool):
                        raise Unsupported("symbolic filter in a specification comprehension")
                    if not (t if isinstance(t, bool) else self.st.branch(t)):
                        ok = False
                        break
                if ok:
                    rec(gi + 1)
        rec(0)
        return out

    def e_DictComp(self, e, fr):
        if len(e.generators) == 1 and isinstance(e.generators[0].target, ast.Name):
            sym = self.symbolic_comp(e, fr, "dict")
            if sym is not None:
                return sym
        if len(e.generators) == 1 and isinstance(e.generators[0].target, ast.Tuple) \
                and len(e.generators[0].target.elts) == 2 and isinstance(e.key, ast.Name) and isinstance(e.value, ast.Name):
            g = e.generators[0]
            it = self.eval(g.iter, fr)
            kn, vn = (x.id for x in g.target.elts)
            if getattr(it, "kind", "") == "iter" and it.what == "items" and isinstance(it.base, VMap) \
                    and e.key.id == kn and e.value.id == vn:
                return self.filter_map(it.base, kn, vn, g.ifs, fr)
        pairs = self.comp(e, fr, pair=True)
        return self.new_dict({self.concrete_key(k): v for k, v in pairs})

    def filter_map(self, m: VMap, kn: str, vn: str, conds, fr) -> VMap:
        """{k: v for k, v in m.items() if cond(k, v)}: same values, domain restricted by the (pure) condition"""
        from .loops import map_get
        kt = m.key
        kvar = z3.Const(self.st.fresh_name("k"), sort_of_type(kt))
        inner = Frame(fr.finfo, fr, cls=fr.cls)
        inner.vars[kn] = wrap(kt, kvar)
        inner.vars[vn] = map_get(self, m, inner.vars[kn])
        saved = self.spec_mode
        self.spec_mode = True     # the filter must be side-effect free: evaluated without forking
        try:
            ts = [_b(self.truth(self.eval(c, inner))) for c in conds]
        finally:
            self.spec_mode = saved
        dom = self.st.heap[(m.ref, "dom")]
        newdom = z3.Lambda([kvar], z3.And(z3.Select(dom, kvar), *ts))
        ref = self.st.new_ref()
        self.st.heap[(ref, "dom")] = newdom
        self.st.heap[(ref, "val")] = self.st.heap[(m.ref, "val")]
        return VMap(ref, m.key, m.val)

    def iterate(self, v: V):
        """iterate a collection with a concrete number of elements"""
        if isinstance(v, VOpt):
            v = self.unopt(v)
        if isinstance(v, (VTuple, VList)):
            return list(self.items_of(v))
        if isinstance(v, VDict):
            return [VStr(k) if isinstance(k, str) else VInt(k) for k in self.st.heap[(v.ref, "items")]]
        it = self.lib.get("__iter__", {}).get(v.kind)
        if it is not None:
            return it(self, v)
        raise Unsupported(f"iteration over symbolic {v!r} needs a loop invariant")

    # ------------------------------------------------------------------ await
    def e_Await(self, e, fr):
        v = self.eval(e.value, fr)
        return self.do_await(v, e)

    def do_await(self, v: V, node) -> V:
        if self.spec_mode:
            raise Unsupported("await in a specification")
        if not isinstance(v, VCoro):
            if isinstance(v, VNoneT) and getattr(self, "last_builtin_awaitable", False):
                self.last_builtin_awaitable = False
                pv = getattr(self, "pending_await_value", None)
                self.pending_await_value = None
                return pv if pv is not None else VNone   # a library coroutine modelled by a builtin (effect already applied)
            if isinstance(v, VObj):
                c = self.find_contract_for_method(v.cls, "__await__")
                if c is None:
                    raise Unsupported(f"await of an object of class {v.cls} without contract {v.cls}.__await__")
                self.await_count += 1
                return self.apply_contract(c, {"self": v}, node, awaited=True)
            if isinstance(v, VOpaque):
                # awaiting an opaque awaitable: arbitrary result, may raise any Exception, is a yield point
                c = self.db.lookup("awaitable.__await__")
                if c is None:
                    raise Unsupported("await of an opaque value without contract 'awaitable.__await__'")
                return self.apply_contract(c, {"aw": v}, node, awaited=True)
            raise Unsupported(f"await of {v!r}")
        self.await_count += 1
        return self.call_function(v.fn, v.args, v.kwargs, node, awaited=True, label=v.label)

    # ================================================================== calls
    def e_Call(self, e, fr):
        # super()
        if isinstance(e.func, ast.Name) and e.func.id == "super" and not e.args:
            selfv = fr.lookup("self") or fr.lookup("cls")
            f = fr
            while f is not None and f.cls is None:
                f = f.parent
            return VSuper(selfv, (f.cls if f else fr.cls).name)
        fn = self.eval(e.func, fr)
        args = []
        for a in e.args:
            if isinstance(a, ast.Starred):
                sv = self.eval(a.value, fr)
                try:
                    args.extend(self.iterate(sv))
                except Unsupported:
                    args.append(VStar(sv))
            else:
                args.append(self.eval(a, fr))
        kwargs = {}
        for k in e.keywords:
            if k.arg is None:
                d = self.eval(k.value, fr)
                if isinstance(d, VOpt):
                    d = self.unopt(d)
                if isinstance(d, VDict):
                    kwargs.update(self.st.heap[(d.ref, "items")])
                else:
                    kwargs["**"] = d
            else:
                kwargs[k.arg] = self.eval(k.value, fr)
        return self.call_function(fn, args, kwargs, e)

    def call_function(self, fn: V, args, kwargs, node, awaited=False, is_property=False, label=None) -> V:
        if isinstance(fn, VOpt):
            fn = self.unopt(fn)
        if isinstance(fn, VPartial):
            return self.call_function(fn.fn, fn.args + list(args), {**fn.kwargs, **kwargs}, node, awaited=awaited)
        if isinstance(fn, VBuiltin):
            return fn.fn(self, args, kwargs, node)
        if isinstance(fn, VLambda):
            fr = Frame(fn.frame.finfo, fn.frame, cls=fn.frame.cls)
            self.bind_args(fn.node.args, args, kwargs, fr, fn.frame)
            return self.eval(fn.node.body, fr)
        if isinstance(fn, VClosure):
            c = self.db.contracts.get(fn.finfo.key)
            local = "<locals>" in fn.finfo.qualname and c is None
            if fn.finfo.is_async and not awaited:
                return VCoro(fn, args, kwargs, node)
            if local or (c is not None and (c.inline or (getattr(self, "harness_mode", False) and c.inline_in_harness))):
                return self.run_body(fn.finfo, fn.frame, args, kwargs, None)
            if c is None and getattr(self, "harness_mode", False) and not fn.finfo.is_async and fn.finfo.cls is None:
                # a module-level helper the sidecar does not know, called from a body that a harness executes: its real
                # body is executed as well (e.g. a helper factored out of encode/decode)
                self.st.notes.append(f"helper {fn.finfo.key} executed inline inside a harness (no sidecar contract)")
                return self.run_body(fn.finfo, fn.frame, args, kwargs, None)
            if c is None:
                raise Unsupported(f"no contract for callee {fn.finfo.key}")
            return self.apply_contract(c, self.argmap_for(fn.finfo, c, None, args, kwargs), node, awaited=awaited)
        if isinstance(fn, VMethod):
            c = None
            if fn.finfo is not None:
                c = self.db.contracts.get(fn.finfo.key)
                if c is None and fn.finfo.cls is not None:
                    c = self.db.contracts.get(f"{fn.finfo.path}::{fn.finfo.cls.name}.{fn.name}")
            if c is None:
                c = self.find_contract_for_method(fn.cls, fn.name)
            if c is None:
                raise Unsupported(f"no contract for callee {fn.cls}.{fn.name}")
            if fn.finfo is None and "::" in c.fn and c.params is None:
                fn = VMethod(fn.obj, fn.cls, fn.name, self.repo.func(c.fn))
            is_async = c.is_async if c.is_async is not None else (fn.finfo.is_async if fn.finfo else False)
            if is_async and not awaited:
                return VCoro(fn, args, kwargs, node)
            if (c.inline or (getattr(self, "harness_mode", False) and c.inline_in_harness)) and fn.finfo is not None:
                selfargs = [fn.obj] if fn.obj is not None else []
                return self.run_body(fn.finfo, None, selfargs + list(args), kwargs, None)
            return self.apply_contract(c, self.argmap_for(fn.finfo, c, fn.obj, args, kwargs), node, awaited=awaited)
        if isinstance(fn, VContractFn):
            c = self.db.lookup(fn.cname)
            if c is None:
                raise Unsupported(f"no contract named {fn.cname}")
            if c.is_async and not awaited:
                return VCoro(fn, args, kwargs, node)
            am = self.argmap_for(None, c, None, args, kwargs)
            am.update(fn.bound)
            return self.apply_contract(c, am, node, awaited=awaited)
        if isinstance(fn, VClass):
            return self.instantiate(fn.name, args, kwargs, node)
        if isinstance(fn, VObj) and getattr(fn, "origin", None) is not None:
            # calling a wrapped operation = calling the operation: the wrapper only observes (property C17)
            self.st.assumed_used.add("a middleware-wrapped operation behaves as the operation itself (property C17)")
            o, attr = fn.origin
            return self.call_function(VMethod(o, o.cls, attr), args, kwargs, node, awaited=awaited)
        if isinstance(fn, VObj):
            c = self.find_contract_for_method(fn.cls, "__call__")
            if c is None:
                raise Unsupported(f"call of an object of class {fn.cls} without contract {fn.cls}.__call__")
            if c.is_async and not awaited:
                return VCoro(fn, args, kwargs, node)
            return self.apply_contract(c, self.argmap_for(None, c, fn, args, kwargs), node, awaited=awaited)
        if isinstance(fn, VOpaque):
            tag = fn.tag or "callable"
            c = self.db.lookup(f"{tag}.__call__")
            if c is None:
                raise Unsupported(f"call of an opaque callable without contract '{tag}.__call__' at line {getattr(node, 'lineno', '?')}")
            if c.is_async and not awaited:
                return VCoro(fn, args, kwargs, node)
            if c.params:
                am = self.argmap_for(None, c, None, [fn] + list(args), kwargs)
            else:
                am = {"fn": fn, "args": VTuple(args), "kwargs": self.new_dict(kwargs)}
            return self.apply_contract(c, am, node, awaited=awaited)
        raise Unsupported(f"call of {fn!r}")

    def instantiate(self, cls: str, args, kwargs, node) -> V:
        """Class(...)"""
        ctor = self.lib.get("__ctors__", {}).get(cls)
        if ctor is not None:
            return ctor(self, args, kwargs, node)
        ci = self.repo.cls(cls)
        if ci is not None and self.is_exc_class(ci):
            EXC_PARENTS.setdefault(cls, [b for b in ci.bases][0])
            return VExc(cls, fields=dict(kwargs), term=self.st.fresh("exc", Opaque), msg=args[0] if args else None)
        if ci is None:
            c = self.db.lookup(f"{cls}.__init__")
            if c is not None:
                return self.apply_contract(c, self.argmap_for(None, c, None, args, kwargs), node)
            if cls in self.db.shapes:
                # external class described only by its sidecar shape: a fresh object; keyword arguments become fields
                return self.new_obj(cls, dict(kwargs))
            raise Unsupported(f"instantiation of unknown class {cls}")
        if "TypedDict" in ci.bases:
            return self.new_dict(dict(kwargs))
        if "NamedTuple" in ci.bases:
            names = [f[0] for f in ci.fields]
            vals = dict(zip(names, args))
            vals.update(kwargs)
            for (n, _ann, default) in ci.fields:
                if n not in vals:
                    if default is None:
                        raise_("TypeError", f"missing argument {n}")
                    vals[n] = self.eval(default, Frame(FuncInfo("<class>", ci.path, ci.node, ci, ci.module, [], ""), cls=ci))
            return self.new_obj(cls, {n: vals[n] for n in names})
        if ci.is_dataclass and ci.name in self.db.symbolic_classes:
            fields = self.repo.all_fields(ci)
            names = [f[0] for f in fields]
            vals = dict(zip(names, args))
            vals.update(kwargs)
            if set(vals) != set(names):
                raise Unsupported(f"symbolic-identity class {cls}: all fields must be given")
            o = VObj(ci.name, self.st.fresh("new_" + ci.pyname, obj_sort(ci.name)))
            for n in names:
                self.st.assume(_b(self.eq(self.get_field(o, n), vals[n])))
            cc = getattr(self, "current_contract", None)
            if cc is not None and getattr(cc, "seq_lemmas", False):
                self.assume_fresh(o)
            return o
        if ci.is_dataclass:
            fields = self.repo.all_fields(ci)
            names = [f[0] for f in fields]
            vals = dict(zip(names, args))
            for k, v in kwargs.items():
                if k not in names:
                    raise_("TypeError", f"unexpected keyword {k}")
                vals[k] = v
            fr = Frame(FuncInfo("<class>", ci.path, ci.node, ci, ci.module, [], ""), cls=ci)
            for (n, _ann, default) in fields:
                if n not in vals:
                    if default is None:
                        raise_("TypeError", f"missing argument {n}")
                    vals[n] = self.dataclass_default(default, fr)
            o = self.new_obj(cls, vals)
            post = self.repo.find_method(ci, "__post_init__")
            if post is not None:
                self.call_function(VMethod(o, cls, "__post_init__", post), [], {}, node)
            return o
        init = self.repo.find_method(ci, "__init__")
        c = self.db.contracts.get(init.key) if init else None
        if init is not None and c is None:
            raise Unsupported(f"no contract for constructor {cls}.__init__")
        o = self.new_obj(cls, {})
        if init is not None:
            self.apply_contract(c, self.argmap_for(init, c, o, args, kwargs), node)
        return o

    def is_exc_class(self, ci) -> bool:
        for c in self.repo.mro(ci):
            for b in c.bases:
                if b in EXC_PARENTS:
                    return True
        return False

    def dataclass_default(self, node, fr):
        # field(default_factory=X) / field(default=X) / plain default
        if isinstance(node, ast.Call) and ast.unparse(node.func) == "field":
            for k in node.keywords:
                if k.arg == "default":
                    return self.eval(k.value, fr)
                if k.arg == "default_factory":
                    fac = self.eval(k.value, fr)
                    return self.call_function(fac, [], {}, node)
            raise Unsupported("field() without default")
        return self.eval(node, fr)

    # ------------------------------------------------------------------ argument binding
    def bind_args(self, a: ast.arguments, args, kwargs, fr: Frame, defaults_frame: Frame | None):
        pos = list(a.posonlyargs) + list(a.args)
        args = list(args)
        kwargs = dict(kwargs)
        ndef = len(a.defaults)
        for i, p in enumerate(pos):
            if i < len(args):
                if p.arg in kwargs:
                    raise_("TypeError", f"multiple values for {p.arg}")
                fr.vars[p.arg] = args[i]
            elif p.arg in kwargs and p not in a.posonlyargs:
                fr.vars[p.arg] = kwargs.pop(p.arg)
            else:
                di = i - (len(pos) - ndef)
                if di < 0:
                    raise_("TypeError", f"missing argument {p.arg}")
                fr.vars[p.arg] = self.eval(a.defaults[di], defaults_frame or fr)
        extra = args[len(pos):]
        if a.vararg is not None:
            fr.vars[a.vararg.arg] = VTuple(extra)
        elif extra:
            raise_("TypeError", "too many positional arguments")
        for p, d in zip(a.kwonlyargs, a.kw_defaults):
            if p.arg in kwargs:
                fr.vars[p.arg] = kwargs.pop(p.arg)
            elif d is not None:
                fr.vars[p.arg] = self.eval(d, defaults_frame or fr)
            else:
                raise_("TypeError", f"missing keyword argument {p.arg}")
        if a.kwarg is not None:
            fr.vars[a.kwarg.arg] = self.new_dict(kwargs)
        elif kwargs:
            raise_("TypeError", f"unexpected keyword arguments {sorted(kwargs)}")

    def argmap_for(self, finfo: FuncInfo | None, c: Contract, selfv, args, kwargs) -> dict:
        """bind call arguments to the callee's parameter names"""
        am: dict[str, V] = {}
        if finfo is not None and c.params is None:
            fr = Frame(finfo, None)
            a = finfo.node.args
            allargs = list(args)
            if selfv is not None:
                allargs = [selfv] + allargs
            self.bind_args(a, allargs, kwargs, fr, Frame(finfo, None))
            return dict(fr.vars)
        params = list(c.params or [])
        allargs = list(args)
        if selfv is not None and params[:1] == ["self"]:
            allargs = [selfv] + allargs
        for p in list(params):
            if p.startswith("**"):
                params.remove(p)
                named = [q for q in params if not q.startswith("*")]
                kw = {k: v for k, v in kwargs.items() if k not in named}      # keywords that name a parameter are bound below
                kwargs = {k: v for k, v in kwargs.items() if k in named}
                if set(kw) == {"**"}:
                    am[p[2:]] = kw["**"]
                elif "**" in kw:
                    raise Unsupported(f"call of {c.fn} mixes explicit keywords {sorted(set(kw) - {'**'})} with a symbolic ** mapping")
                else:
                    am[p[2:]] = self.new_dict(kw)
        star = None
        for i, p in enumerate(params):
            if p.startswith("*"):
                star = p[1:]
                am[star] = VTuple(allargs[i:])
                allargs = allargs[:i]
                break
        for p, v in zip([p for p in params if not p.startswith("*")], allargs):
            am[p] = v
        if star is None and len(allargs) > len(params):
            raise Unsupported(f"too many arguments for contract {c.fn}")
        for k, v in kwargs.items():
            am[k] = v
        for p in params:
            if p.startswith("*"):
                continue
            if p not in am:
                if p in c.defaults:
                    am[p] = self.eval_spec_expr(c.defaults[p], am)
                else:
                    raise Unsupported(f"missing argument {p} for contract {c.fn}")
        return am

    # ================================================================== running a body (local closures, verified fn)
    def run_body(self, finfo: FuncInfo, defining: Frame | None, args, kwargs, preset: dict | None) -> V:
        fr = Frame(finfo, defining, cls=finfo.cls)
        shas = getattr(self, "body_shas", None)
        if shas is not None:
            try:
                shas.add(finfo.sha)        # every real body executed for this function's obligations (see baseline.json)
            except Exception:  # noqa: BLE001  (harness bodies have no repository source)
                pass
        if preset is not None:
            fr.vars.update(preset)
        else:
            self.bind_args(finfo.node.args, args, kwargs, fr, defining or Frame(finfo, None))
        self.call_depth += 1
        if self.call_depth > 30:
            raise Unsupported("call depth")
        caller_frame = self.cur_frame
        try:
            self.exec_block(finfo.node.body, fr)
        except _Return as r:
            return r.value
        finally:
            self.call_depth -= 1
            if self.call_depth > 0 and caller_frame is not None:
                self.cur_frame = caller_frame      # back in the caller: local(...) in clauses means ITS locals again
        return VNone

    # ================================================================== statements
    def exec_block(self, stmts, fr: Frame):
        for s in stmts:
            self.exec_stmt(s, fr)

    def exec_stmt(self, s: ast.stmt, fr: Frame):
        self.cur_frame = fr
        m = getattr(self, "s_" + type(s).__name__, None)
        if m is None:
            raise Unsupported(f"unsupported statement {type(s).__name__} at line {getattr(s, 'lineno', '?')}")
        m(s, fr)

    def s_Expr(self, s, fr):
        if isinstance(s.value, ast.Constant):
            return  # docstring
        if self.is_logger_call(s.value):
            return
        v = s.value
        if isinstance(v, ast.ListComp) and len(v.generators) == 1 and not v.generators[0].ifs:
            # `[await f(x) for x in xs]` as a statement: a loop whose result list is discarded
            it = self.eval(v.generators[0].iter, fr)
            try:
                self.iterate(it)
            except Unsupported:
                loop = ast.For(target=v.generators[0].target, iter=v.generators[0].iter,
                               body=[ast.Expr(value=v.elt)], orelse=[])
                ast.copy_location(loop, s)
                ast.fix_missing_locations(loop)
                loop._comp_src = ast.unparse(v)
                loop._comp_id = id(v)
                return self.symbolic_loop(loop, fr, it)
        self.eval(s.value, fr)

    def is_logger_call(self, e) -> bool:
        if isinstance(e, ast.Call) and isinstance(e.func, ast.Attribute) and isinstance(e.func.value, ast.Name) \
                and e.func.value.id == "logger":
            for sub in ast.walk(e):
                if isinstance(sub, (ast.Await, ast.NamedExpr, ast.Yield)):
                    raise Unsupported("logger call with side effects")
                if isinstance(sub, ast.Call) and sub is not e:
                    raise Unsupported("logger call containing a call")
            return True
        return False

    def s_Pass(self, s, fr):
        pass

    def s_Assign(self, s, fr):
        v = self.eval(s.value, fr)
        for t in s.targets:
            self.assign_target(t, v, fr)

    def s_AnnAssign(self, s, fr):
        if s.value is None:
            return
        self.assign_target(s.target, self.eval(s.value, fr), fr)

    def s_AugAssign(self, s, fr):
        op = self.BINOPS.get(type(s.op))
        if op is None:
            raise Unsupported("augmented operator")
        load = ast.copy_location(_as_load(s.target), s.target)
        cur = self.eval(load, fr)
        self.assign_target(s.target, self.binop(op, cur, self.eval(s.value, fr)), fr)

    def assign_target(self, t, v: V, fr: Frame):
        if isinstance(t, ast.Name):
            fr.assign(t.id, v)
        elif isinstance(t, (ast.Tuple, ast.List)) and any(isinstance(x, ast.Starred) for x in t.elts) and isinstance(v, VSeq):
            # a, *rest = <symbolic list>   (one starred target, at the end): first elements by index, the remainder as a NEW list
            if not (isinstance(t.elts[-1], ast.Starred) and sum(isinstance(x, ast.Starred) for x in t.elts) == 1):
                raise Unsupported("starred target not in last position")
            k = len(t.elts) - 1
            cur = self.st.heap[(v.ref, "seq")]
            if self.st.branch(z3.Length(cur) < k):
                raise_("ValueError", "not enough values to unpack")
            from .loops import named_subseq
            for i, x in enumerate(t.elts[:-1]):
                e = cur[i]
                self.assign_target(x, VObj(v.elem[1], e) if v.elem[0] in ("obj", "symobj") else wrap(v.elem, e), fr)
            ref = self.st.new_ref()
            rest = z3.SubSeq(cur, k, z3.Length(cur) - k)
            cc = getattr(self, "current_contract", None)
            if cc is not None and getattr(cc, "seq_lemmas", False):
                rest = named_subseq(self.st, cur, z3.IntVal(k), z3.Length(cur) - k, rest)
            self.st.heap[(ref, "seq")] = rest
            self.assign_target(t.elts[-1].value, VSeq(ref, v.elem), fr)
        elif isinstance(t, (ast.Tuple, ast.List)):
            items = self.unpack(v, len(t.elts))
            for x, y in zip(t.elts, items):
                self.assign_target(x, y, fr)
        elif isinstance(t, ast.Attribute):
            base = self.eval(t.value, fr)
            attr = self.mangle(t.attr, fr)
            self.setattr(base, attr, v)
        elif isinstance(t, ast.Subscript):
            base = self.eval(t.value, fr)
            idx = self.eval(t.slice, fr)
            self.setitem(base, idx, v)
        else:
            raise Unsupported(f"assignment target {type(t).__name__}")

    def setattr(self, base: V, attr: str, v: V):
        if isinstance(base, VOpt):
            base = self.unopt_attr(base, attr)
        if isinstance(base, VObj):
            ci = self.repo_class_of(base.cls)
            if ci is not None:
                setter = self.repo.find_method(ci, attr + ".setter")
                if setter is not None:
                    self.call_function(VMethod(base, base.cls, attr + ".setter", setter), [v], {}, None)
                    return
                if ci.is_dataclass and self.is_frozen(ci):
                    raise_("FrozenInstanceError")
            c = self.find_contract_for_method(base.cls, attr + ".setter")
            if c is not None:
                self.apply_contract(c, self.argmap_for(None, c, base, [v], {}), None)
                return
            self.set_field(base, attr, v)
            return
        if isinstance(base, VMethod) or isinstance(base, VFunc):
            # attribute stored on a function object (e.g. `_repid_signal_emitter`)
            h = self.lib.get("__setattr_func__")
            if h is not None:
                return h(self, base, attr, v)
        raise Unsupported(f"attribute assignment on {base!r}")

    def is_frozen(self, ci: ClassInfo) -> bool:
        for d in ci.node.decorator_list:
            src = ast.unparse(d)
            if "frozen=True" in src or "FROZEN_DATACLASS" in src:
                return True
        return False

    def setitem(self, base: V, idx: V, v: V):
        if isinstance(base, VOpt):
            base = self.unopt(base)
        if isinstance(base, VDict):
            d = dict(self.st.heap[(base.ref, "items")])
            d[self.concrete_key(idx)] = v
            self.st.heap[(base.ref, "items")] = d
            return
        if isinstance(base, VList):
            items = list(self.items_of(base))
            i = self.concrete_key(idx)
            if i < -len(items) or i >= len(items):
                raise_("IndexError")
            items[i] = v
            self.st.heap[(base.ref, "items")] = tuple(items)
            return
        m = self.lib.get("__setitem__", {}).get(base.kind)
        if m is not None:
            return m(self, base, idx, v)
        raise Unsupported(f"item assignment on {base!r}")

    def unpack(self, v: V, n: int):
        if isinstance(v, VOpt):
            v = self.unopt(v)
        if isinstance(v, (VTuple, VList)):
            items = self.items_of(v)
            if len(items) != n:
                raise_("ValueError", "unpack length mismatch")
            return items
        u = self.lib.get("__unpack__", {}).get(v.kind)
        if u is not None:
            return u(self, v, n)
        raise Unsupported(f"unpacking {v!r}")

    def s_Return(self, s, fr):
        raise _Return(self.eval(s.value, fr) if s.value is not None else VNone)

    def s_If(self, s, fr):
        t = self.truth(self.eval(s.test, fr))
        if self.st.branch(_b(t)):
            self.exec_block(s.body, fr)
        else:
            self.exec_block(s.orelse, fr)

    def s_Raise(self, s, fr):
        if s.exc is None:
            cur = fr.lookup("__current_exc__")
            if cur is None:
                raise_("RuntimeError", "No active exception to reraise")
            raise PyRaise(cur.exc)
        v = self.eval(s.exc, fr)
        if isinstance(v, VClass):
            v = self.instantiate(v.name, [], {}, s)
        if isinstance(v, VExc):
            raise PyRaise(v)
        raise Unsupported(f"raise of {v!r}")

    def s_Nonlocal(self, s, fr):
        fr.nonlocals.update(s.names)

    def s_Global(self, s, fr):
        raise Unsupported("global statement")

    def s_Break(self, s, fr):
        raise _Break()

    def s_Continue(self, s, fr):
        raise _Continue()

    def s_FunctionDef(self, s, fr):
        qn = f"{fr.finfo.qualname}.<locals>.{s.name}"
        fi = fr.finfo.module.functions.get(qn)
        if fi is None or fi.node is not s:
            fi = FuncInfo(qn, fr.finfo.path, s, fr.finfo.cls, fr.finfo.module, [], "")
        fr.assign(s.name, VClosure(fi, fr))

    s_AsyncFunctionDef = s_FunctionDef

    def s_Delete(self, s, fr):
        for t in s.targets:
            if isinstance(t, ast.Subscript):
                base = self.eval(t.value, fr)
                if isinstance(base, VDict):
                    d = dict(self.st.heap[(base.ref, "items")])
                    k = self.concrete_key(self.eval(t.slice, fr))
                    if k not in d:
                        raise_("KeyError")
                    del d[k]
                    self.st.heap[(base.ref, "items")] = d
                    continue
                if isinstance(base, VMap) and not getattr(base, "ordered", False):
                    # del m[k] on a symbolic dict: KeyError when absent, else the key leaves the domain
                    from .loops import kterm
                    kt = kterm(self, self.eval(t.slice, fr))
                    dom = self.st.heap[(base.ref, "dom")]
                    if not self.st.branch(z3.Select(dom, kt)):
                        raise_("KeyError")
                    self.st.heap[(base.ref, "dom")] = z3.Store(dom, kt, z3.BoolVal(False))
                    continue
            raise Unsupported("del")

    def s_Assert(self, s, fr):
        t = self.truth(self.eval(s.test, fr))
        if not self.st.branch(_b(t)):
            raise_("AssertionError")

    # ------------------------------------------------------------------ try
    def handler_matches(self, h: ast.ExceptHandler, exc: VExc, fr: Frame) -> bool:
        if h.type is None:
            return True
        names = []
        tnode = h.type
        for t in (tnode.elts if isinstance(tnode, ast.Tuple) else [tnode]):
            names.append(ast.unparse(t).split(".")[-1])
        for n in names:
            if n == "CancelledError" and exc.cls == "CancelledError":
                return True
            if exc_is_sub(exc.cls, n):
                return True
        if exc.anysub:
            for n in names:
                if exc_is_sub(n, exc.cls) and n != exc.cls:
                    # the raised class may or may not be a subclass of the handler's class
                    if n in exc.fields.get("__not__", ()):
                        continue
                    if self.st.choose(2, f"exc-sub-{n}") == 1:
                        return True
                    exc.fields.setdefault("__not__", set()).add(n)
        return False

    def s_Try(self, s, fr):
        pending = None
        try:
            try:
                self.exec_block(s.body, fr)
            except PyRaise as pr:
                handled = False
                for h in s.handlers:
                    if self.handler_matches(h, pr.exc, fr):
                        handled = True
                        if h.name:
                            fr.assign(h.name, pr.exc)
                        saved = fr.vars.get("__current_exc__")
                        fr.vars["__current_exc__"] = pr
                        try:
                            self.exec_block(h.body, fr)
                        finally:
                            if saved is None:
                                fr.vars.pop("__current_exc__", None)
                            else:
                                fr.vars["__current_exc__"] = saved
                        break
                if not handled:
                    raise
            else:
                self.exec_block(s.orelse, fr)
        except (PyRaise, _Return, _Break, _Continue) as ctl:
            pending = ctl
        if s.finalbody:
            self.exec_block(s.finalbody, fr)   # an exception / return in finally replaces the pending one
        if pending is not None:
            raise pending

    def s_With(self, s, fr):
        raise Unsupported("with statement")

    def s_AsyncWith(self, s, fr):
        if len(s.items) != 1:
            raise Unsupported("async with several items")
        item = s.items[0]
        cm = self.eval(item.context_expr, fr)
        if getattr(cm, "kind", "") == "pipe":
            entered = cm        # redis-py Pipeline.__aenter__ returns the pipeline; __aexit__ resets it
        elif isinstance(cm, VObj) and self.find_contract_for_method(cm.cls, "__aenter__") is not None:
            entered = self.do_await(self.call_function(self.getattr(cm, "__aenter__"), [], {}, s), s)
        else:
            raise Unsupported(f"async with {cm!r}")
        if item.optional_vars is not None:
            self.assign_target(item.optional_vars, entered, fr)
        pending = None
        try:
            self.exec_block(s.body, fr)
        except (PyRaise, _Return, _Break, _Continue) as ctl:
            pending = ctl
        if getattr(cm, "kind", "") == "pipe":
            self.st.heap[(cm.ref, "queued")] = ()      # leaving the block discards commands that were not executed
        else:
            self.do_await(self.call_function(self.getattr(cm, "__aexit__"), [VNone, VNone, VNone], {}, s), s)
        if pending is not None:
            raise pending

    def assume_fresh(self, o):
        """a newly constructed object is not an element of any collection that exists at this moment (Python object
        identity): stated for every sequence / set / map-of-sequences in the heap whose element sort is the object's"""
        st = self.st
        srt = o.ref.sort()
        for (ref, sub), term in list(st.heap.items()):
            if not z3.is_expr(term):
                continue
            ts = term.sort()
            try:
                if sub == "seq" and z3.is_seq(term) and ts.basis() == srt:
                    i = z3.Int(st.fresh_name("i"))
                    st.assume(z3.ForAll([i], z3.Implies(z3.And(i >= 0, i < z3.Length(term)), term[i] != o.ref), patterns=[term[i]]))
                elif sub == "set" and z3.is_array(term) and ts.domain() == srt and ts.range() == z3.BoolSort():
                    st.assume(z3.Not(z3.Select(term, o.ref)))
                elif sub == "val" and z3.is_array(term) and z3.is_seq(z3.Select(term, z3.Const("k!", ts.domain()))) \
                        and ts.range().basis() == srt:
                    k = z3.Const(st.fresh_name("k"), ts.domain())
                    i = z3.Int(st.fresh_name("i"))
                    dom = st.heap.get((ref, "dom"))
                    guard = z3.And(i >= 0, i < z3.Length(z3.Select(term, k)))
                    if dom is not None:
                        guard = z3.And(z3.Select(dom, k), guard)
                    st.assume(z3.ForAll([k, i], z3.Implies(guard, z3.Select(term, k)[i] != o.ref)))
            except (z3.Z3Exception, AttributeError):
                continue

    # ------------------------------------------------------------------ loops
    def s_For(self, s, fr):
        it = self.eval(s.iter, fr)
        try:
            items = self.iterate(it)
        except Unsupported:
            return self.symbolic_loop(s, fr, it)
        broke = False
        for item in items:
            self.assign_target(s.target, item, fr)
            try:
                self.exec_block(s.body, fr)
            except _Break:
                broke = True
                break
            except _Continue:
                continue
        if not broke:
            self.exec_block(s.orelse, fr)

    def s_While(self, s, fr):
        return self.symbolic_loop(s, fr, None)

    def s_AsyncFor(self, s, fr):
        return self.symbolic_loop(s, fr, self.eval(s.iter, fr))

    def symbolic_loop(self, s, fr, it):
        h = self.lib.get("__loop__")
        if h is None:
            raise Unsupported("loop over a symbolic collection (no loop support loaded)")
        return h(self, s, fr, it)

    # ================================================================== specifications
    def eval_spec_expr(self, expr: str, env: dict, old=None) -> V:
        """evaluate a contract expression string in spec mode"""
        try:
            node = ast.parse(expr.strip(), mode="eval").body
        except SyntaxError as exc:
            raise Unsupported(f"bad contract expression {expr!r}: {exc}") from exc
        saved = (self.spec_mode, self.old_state)
        self.spec_mode = True
        if old is not None:
            self.old_state = old
        self.spec_env_stack.append(env)
        try:
            fr = Frame(None)
            return self.eval(node, fr)
        finally:
            self.spec_env_stack.pop()
            self.spec_mode, self.old_state = saved

    def spec_bool(self, expr: str, env: dict, old=None):
        v = self.eval_spec_expr(expr, env, old)
        t = self.truth(v)
        return _b(t)

    # contract application at a call site is in contracts.py (mixed in by Verifier)
    def apply_contract(self, c, argmap, node, awaited=False):  # pragma: no cover - replaced
        raise NotImplementedError


def _as_load(t):
    if isinstance(t, ast.Name):
        return ast.Name(id=t.id, ctx=ast.Load())
    if isinstance(t, ast.Attribute):
        return ast.Attribute(value=t.value, attr=t.attr, ctx=ast.Load())
    if isinstance(t, ast.Subscript):
        return ast.Subscript(value=t.value, slice=t.slice, ctx=ast.Load())
    raise Unsupported("augmented assignment target")
