"""Contract application at call sites, spec forms (old/implies/...), havoc, obligations."""
from __future__ import annotations

import ast
import time

import z3

from .interp import Frame, Interp
from .loader import Unsupported
from .ops import PyRaise, _and, _b, _not
from .smt import check_with_fallback, model_to_dict
from .spec import Contract
from .state import Heap, Obligation, PathInfeasible
from .tys import mk_sym
from .values import *  # noqa: F401,F403
from .values import term_of


SPEC_FORMS = {"local", "exists_int", "snap", "forall", "exists", "forall_str", "forall_int", "old", "implies", "iff", "forall_in", "exists_in", "ite", "fresh_clock", "typeis", "flag"}


class GhostNS(V):
    kind = "ghostns"


class ContractInterp(Interp):
    # ------------------------------------------------------------------ spec forms
    def e_Call(self, e, fr):
        if self.spec_mode and isinstance(e.func, ast.Name):
            n = e.func.id
            if n in SPEC_FORMS:
                return self.spec_form(n, e, fr)
            if n in self.db.defines:
                params, body = self.db.defines[n]
                args = [self.eval(a, fr) for a in e.args]
                if len(args) != len(params):
                    raise Unsupported(f"spec function {n}: arity")
                return self.eval_spec_expr(body, dict(zip(params, args)))
            if n in self.db.ufuns:
                ats, rt = self.db.ufuns[n]
                args = [self.eval(a, fr) for a in e.args]
                return self.apply_ufun(n, ats, rt, args)
        return super().e_Call(e, fr)

    def apply_ufun(self, n, ats, rt, args):
        ats = [self.tenv.parse(a) for a in ats]
        rt = self.tenv.parse(rt)
        ropt = rt[0] == "opt"
        rti = rt[1] if ropt else rt
        f = None if rti[0] == "arr" else z3.Function(n, *[sort_of_type(a) for a in ats], sort_of_type(rti))
        ts = []
        for a, t in zip(args, ats):
            if isinstance(a, VOpt):
                a = a.val
            if isinstance(a, VDict) and t[0] == "opaque":
                # a dict display with concrete keys as an opaque value: dict_cons(k1, v1, dict_cons(k2, v2, empty))
                cons = z3.Function("dict_cons", z3.StringSort(), Opaque, Opaque, Opaque)
                box = z3.Function("box_str", z3.StringSort(), Opaque)
                cur = z3.Const("dict_empty", Opaque)
                for k, v in reversed(list(self.st.heap[(a.ref, "items")].items())):
                    vt = v.term if isinstance(v, VOpaque) else (box(v.term) if isinstance(v, VStr) else None)
                    if vt is None:
                        raise Unsupported(f"dict value {v!r} passed to uninterpreted function {n}")
                    cur = cons(z3.StringVal(str(k)), vt, cur)
                ts.append(cur)
                continue
            if isinstance(a, VObj) and not a.symbolic:
                raise Unsupported(f"heap object passed to uninterpreted function {n}")
            ts.append(term_of(a))
        if rti[0] == "arr":
            from .tys import elem_type
            et = elem_type(rti[1])
            fl = z3.Function(n + ".len", *[sort_of_type(a) for a in ats], z3.IntSort())
            fa = z3.Function(n + ".arr", *[sort_of_type(a) for a in ats], z3.ArraySort(z3.IntSort(), sort_of_type(et)))
            ref = self.st.new_ref()
            self.st.heap[(ref, "len")] = fl(*ts)
            self.st.heap[(ref, "arr")] = fa(*ts)
            self.st.assume(fl(*ts) >= 0)
            return VArr(ref, et)
        if rti[0] == "seq":
            from .tys import elem_type
            ref = self.st.new_ref()
            self.st.heap[(ref, "seq")] = f(*ts)
            return VSeq(ref, elem_type(rti[1]))
        res = wrap(rti, f(*ts))
        if ropt:
            fn = z3.Function(n + "?none", *[sort_of_type(a) for a in ats], z3.BoolSort())
            return VOpt(fn(*ts), res)
        return res

    def spec_form(self, n, e, fr):
        if n == "old":
            if self.old_state is None:
                raise Unsupported("old() outside a two-state clause")
            heap, ghost = self.st.heap, self.st.ghost
            self.st.heap, self.st.ghost = Heap(self.old_state[0]), dict(self.old_state[1])
            try:
                v = self.eval(e.args[0], fr)
                snap = None
                if isinstance(v, (VSeq, VSet, VMap, VList, VDict)):
                    # reference collections: freeze the old content under a new reference
                    snap = {sub: self.st.heap[(v.ref, sub)] for sub in ("seq", "set", "dom", "val", "items")
                            if (v.ref, sub) in self.st.heap}
            finally:
                self.st.heap, self.st.ghost = heap, ghost
            if snap is not None:
                import copy as _copy
                v2 = _copy.copy(v)
                v2.ref = self.st.new_ref()
                for sub, content in snap.items():
                    self.st.heap[(v2.ref, sub)] = content
                return v2
            return v
        if n == "implies":
            a = _b(self.truth(self.eval(e.args[0], fr)))
            if z3.is_false(z3.simplify(a)):
                return VBool(True)
            if getattr(self, "quant_depth", 0) > 0:
                # inside a quantifier the antecedent talks about bound variables: asking the solver whether it is
                # feasible is expensive and tells nothing; evaluate the consequent directly when that is possible
                try:
                    b = _b(self.truth(self.eval(e.args[1], fr)))
                    return VBool(z3.Implies(a, b))
                except (PyRaise, Unsupported):
                    pass
            if not self.st.feasible(a):
                return VBool(True)   # antecedent impossible on this path: consequent is not evaluated
            b = _b(self.truth(self.eval(e.args[1], fr)))
            return VBool(z3.Implies(a, b))
        if n == "iff":
            a = _b(self.truth(self.eval(e.args[0], fr)))
            b = _b(self.truth(self.eval(e.args[1], fr)))
            return VBool(a == b)
        if n == "ite":
            c = _b(self.truth(self.eval(e.args[0], fr)))
            return self.ite(c, self.eval(e.args[1], fr), self.eval(e.args[2], fr))
        if n in ("forall_in", "exists_in"):
            # forall_in(x, concrete_collection, body)
            var = e.args[0].id
            items = self.iterate(self.eval(e.args[1], fr))
            out = []
            for it in items:
                f2 = Frame(fr.finfo, fr, cls=fr.cls)
                f2.vars[var] = it
                out.append(_b(self.truth(self.eval(e.args[2], f2))))
            if n == "forall_in":
                return VBool(z3.And(*out) if out else z3.BoolVal(True))
            return VBool(z3.Or(*out) if out else z3.BoolVal(False))
        if n == "snap":
            v = self.eval(e.args[0], fr)
            if isinstance(v, (VSeq, VSet, VMap, VList, VDict)):
                import copy as _copy
                v2 = _copy.copy(v)
                v2.ref = self.st.new_ref()
                for sub in ("seq", "set", "dom", "val", "items"):
                    if (v.ref, sub) in self.st.heap:
                        self.st.heap[(v2.ref, sub)] = self.st.heap[(v.ref, sub)]
                return v2
            return v
        if n in ("forall", "exists"):
            # forall(x, "Type", body): quantification over a first-order sort (objects, str, int, datetime, ...)
            var = e.args[0].id
            t = self.tenv.parse(ast.literal_eval(e.args[1]))
            from .tys import elem_type
            t = elem_type(t)
            x = z3.Const(self.st.fresh_name(var), sort_of_type(t))
            f2 = Frame(fr.finfo, fr, cls=fr.cls)
            f2.vars[var] = VObj(t[1], x) if t[0] in ("obj", "symobj") else wrap(t, x)
            body = self._qbody(e.args[2], f2)
            return VBool(z3.ForAll([x], body) if n == "forall" else z3.Exists([x], body))
        if n == "local":
            # local('name', default): a local variable of the function under verification at this program point
            nm = ast.literal_eval(e.args[0])
            f = self.cur_frame
            v = f.lookup(nm) if f is not None else None
            return v if v is not None else self.eval(e.args[1], fr)
        if n == "exists_int":
            var = e.args[0].id
            x = z3.Const(self.st.fresh_name(var), z3.IntSort())
            f2 = Frame(fr.finfo, fr, cls=fr.cls)
            f2.vars[var] = VInt(x)
            ex = z3.Exists([x], self._qbody(e.args[1], f2))
            if len(e.args) >= 3:
                # exists_int(p, body, witness): a proof hint only - `body[p := witness] or exists p. body` is equivalent
                # to the existential, the first disjunct just spares the solver the search for the instance
                try:
                    w = self.eval(e.args[2], fr)
                    f3 = Frame(fr.finfo, fr, cls=fr.cls)
                    f3.vars[var] = w
                    return VBool(z3.Or(_b(self.truth(self.eval(e.args[1], f3))), ex))
                except (Unsupported, PyRaise):
                    return VBool(ex)
            return VBool(ex)
        if n in ("forall_str", "forall_int"):
            var = e.args[0].id
            srt = z3.StringSort() if n == "forall_str" else z3.IntSort()
            x = z3.Const(self.st.fresh_name(var), srt)
            f2 = Frame(fr.finfo, fr, cls=fr.cls)
            f2.vars[var] = VStr(x) if n == "forall_str" else VInt(x)
            return VBool(z3.ForAll([x], self._qbody(e.args[1], f2)))
        if n == "flag":
            nm = ast.literal_eval(e.args[0])
            v = self.st.ghost.get(nm)
            return v if v is not None else VBool(False)
        if n == "typeis":
            v = self.eval(e.args[0], fr)
            want = ast.literal_eval(e.args[1])
            return VBool(v.kind == want or (isinstance(v, VInt) and v.kind == want))
        raise Unsupported(f"spec form {n}")

    def _qbody(self, node, fr):
        """body of a quantifier: evaluated with quant_depth > 0 (no ground instantiation of named predicates inside)"""
        self.quant_depth = getattr(self, "quant_depth", 0) + 1
        try:
            return _b(self.truth(self.eval(node, fr)))
        finally:
            self.quant_depth -= 1

    def lookup_name(self, name, fr):
        if name == "ghost":
            return GhostNS()
        return super().lookup_name(name, fr)

    def getattr(self, base, attr, fr=None, node=None):
        if isinstance(base, GhostNS):
            if attr not in self.st.ghost:
                raise Unsupported(f"unknown ghost variable {attr}")
            return self.st.ghost[attr]
        return super().getattr(base, attr, fr, node)

    def setattr(self, base, attr, v):
        if isinstance(base, GhostNS):
            self.st.ghost[attr] = v
            return
        return super().setattr(base, attr, v)

    # ------------------------------------------------------------------ locations / havoc
    def resolve_location(self, expr: str, env: dict):
        """location expression -> ('field', VObj, attr) | ('ghost', name) | ('coll', V)"""
        node = ast.parse(expr.strip(), mode="eval").body
        if isinstance(node, ast.Attribute):
            saved = self.spec_mode
            self.spec_mode = True
            self.spec_env_stack.append(env)
            try:
                base = self.eval(node.value, Frame(None))
            finally:
                self.spec_env_stack.pop()
                self.spec_mode = saved
            if isinstance(base, GhostNS):
                return ("ghost", node.attr)
            if isinstance(base, VOpt):
                base = base.val
            if isinstance(base, VObj):
                return ("field", base, node.attr)
            if getattr(base, "kind", "") == "redis":
                return ("raw", base, node.attr)
            raise Unsupported(f"location {expr}: base is {base!r}")
        if isinstance(node, ast.Name):
            v = env.get(node.id)
            if isinstance(v, (VList, VDict, VSeq, VSet, VMap)):
                return ("coll", v)
        raise Unsupported(f"unsupported location expression {expr}")

    def havoc_value(self, old: V, t, name: str) -> V:
        """a fresh value of the same shape as `old` (collections keep their identity)"""
        st = self.st
        if isinstance(old, VSeq):
            st.heap[(old.ref, "seq")] = st.fresh(name, z3.SeqSort(sort_of_type(old.elem)))
            return old
        if isinstance(old, VSet):
            st.heap[(old.ref, "set")] = st.fresh(name, z3.ArraySort(sort_of_type(old.elem), z3.BoolSort()))
            return old
        if isinstance(old, VMap):
            st.heap[(old.ref, "dom")] = st.fresh(name + ".dom", st.heap[(old.ref, "dom")].sort())
            st.heap[(old.ref, "val")] = st.fresh(name + ".val", st.heap[(old.ref, "val")].sort())
            if getattr(old, "ordered", False):
                from .tys import fresh_order
                fresh_order(st, old.ref, old.key, name)
            return old
        if isinstance(old, VList):
            raise Unsupported(f"havoc of a concrete-length list {name}")
        if isinstance(old, VInt):
            c = st.fresh(name, z3.IntSort())
            return VInt(c, old.kind)
        if isinstance(old, VBool):
            return VBool(st.fresh(name, z3.BoolSort()))
        if isinstance(old, VReal):
            return VReal(st.fresh(name, z3.RealSort()))
        if isinstance(old, VStr):
            return VStr(st.fresh(name, z3.StringSort()))
        if isinstance(old, VEnum):
            c = st.fresh(name, z3.IntSort())
            st.assume(z3.And(c >= 0, c < len(self.tenv.enum_members(old.cls))))
            return VEnum(old.cls, c)
        if isinstance(old, VOpaque):
            return VOpaque(st.fresh(name, Opaque), tag=old.tag)
        if isinstance(old, VOpt):
            inner = self.havoc_value(old.val, None, name) if old.val is not None else None
            return VOpt(st.fresh(name + "?none", z3.BoolSort()), inner)
        if isinstance(old, VObj):
            if old.symbolic:
                return VObj(old.cls, st.fresh(name, obj_sort(old.cls)))
            return mk_sym(st, self.tenv, t if t is not None else ("obj", old.cls), st.fresh_name(name))
        if t is not None:
            return mk_sym(st, self.tenv, t, st.fresh_name(name))
        raise Unsupported(f"cannot havoc {name} ({old!r})")

    def expand_locs(self, locs, env):
        """`for x in <concrete iterable>: <location using x>` -> one location per element"""
        out = []
        for loc in locs:
            if loc.startswith("for "):
                head, body = loc[4:].split(":", 1)
                var, itexpr = head.split(" in ", 1)
                for item in self.iterate(self.eval_spec_expr(itexpr.strip(), env)):
                    out.append((body.strip(), {**env, var.strip(): item}))
            else:
                out.append((loc, env))
        return out

    def havoc(self, locs, env):
        for loc, env in self.expand_locs(locs, env):
            r = self.resolve_location(loc, env)
            if r[0] == "ghost":
                old = self.st.ghost.get(r[1])
                if old is None:
                    continue        # a ghost the function under verification does not declare: not observed here
                self.st.ghost[r[1]] = self.havoc_value(old, None, "ghost." + r[1])
            elif r[0] == "raw":
                cur = self.st.heap[(r[1].ref, r[2])]
                self.st.heap[(r[1].ref, r[2])] = self.st.fresh(r[2], cur.sort())
            elif r[0] == "field":
                _, o, attr = r
                t = self.tenv.fields_of(o.cls).get(attr)
                old = self.st.heap.get((o.ref, attr)) if not o.symbolic else None
                if o.symbolic:
                    raise Unsupported(f"havoc of a field of an immutable object: {loc}")
                if old is None and t is None:
                    raise Unsupported(f"havoc of unknown field {loc}")
                self.st.heap[(o.ref, attr)] = self.havoc_value(old, t, f"{o.cls}.{attr}") if old is not None \
                    else mk_sym(self.st, self.tenv, t, self.st.fresh_name(f"{o.cls}.{attr}"))
            else:
                self.havoc_value(r[1], None, "coll")

    def location_keys(self, locs, env):
        keys = set()
        for loc, env in self.expand_locs(locs, env):
            r = self.resolve_location(loc, env)
            if r[0] == "field":
                o = r[1]
                v = self.st.heap.get((o.ref, r[2]))
                keys.add((o.ref, r[2]))
                if isinstance(v, (VSeq, VSet, VMap, VList, VDict)) or getattr(v, "kind", "") == "hmap":
                    for sub in ("seq", "set", "dom", "val", "items"):
                        keys.add((v.ref, sub))
            elif r[0] == "raw":
                keys.add((r[1].ref, r[2]))
            elif r[0] == "coll":
                for sub in ("seq", "set", "dom", "val", "items"):
                    keys.add((r[1].ref, sub))
            else:
                keys.add(("ghost", r[1]))
                gv = self.st.ghost.get(r[1])
                if isinstance(gv, (VSeq, VSet, VMap, VList, VDict)):
                    for sub in ("seq", "set", "dom", "val", "items"):
                        keys.add((gv.ref, sub))
        return keys

    # ------------------------------------------------------------------ obligations
    def check(self, name: str, term, where="", must_hold=True) -> bool:
        """prove pc => term.  Records an Obligation; returns True when discharged."""
        st = self.st
        term = z3.simplify(_b(term))
        t0 = time.time()
        if z3.is_true(term):
            st.obligations.append(Obligation(name, "discharged", solver="simplify", t=0.0, path=list(st.taken), where=where))
            return True
        if st.tainted:
            st.renew_solver()
        res, model, solver, smt2 = check_with_fallback(st.solver, z3.Not(term), key=name)
        from .smt import LAST
        if LAST["first_unknown"]:
            st.tainted = True           # this solver has timed out once: it is replaced before the next question
        dt = time.time() - t0
        st.solver_time += dt
        if res == "unsat":
            st.obligations.append(Obligation(name, "discharged", solver=solver, t=dt, path=list(st.taken), where=where))
            return True
        if res == "sat":
            md = model_to_dict(model, st.input_terms) if model is not None else {}
            st.obligations.append(Obligation(name, "failed", detail=f"counterexample: {md}", model=md, solver=solver,
                                             t=dt, path=list(st.taken), smt2=smt2, where=where))
            return False
        if smt2:
            import os as _os
            import re as _re
            d = _os.path.join(_os.path.dirname(_os.path.dirname(_os.path.abspath(__file__))), "out", "undecided")
            _os.makedirs(d, exist_ok=True)
            with open(_os.path.join(d, _re.sub(r"[^A-Za-z0-9_.-]+", "_", name)[:80] + f".{len(st.taken)}.smt2"), "w") as fh:
                fh.write(smt2)
        st.obligations.append(Obligation(name, "undecided", detail="solver returned unknown", solver=solver, t=dt,
                                         path=list(st.taken), smt2=smt2, where=where))
        return False

    # ------------------------------------------------------------------ applying a callee's contract
    def result_type_for(self, c: Contract, finfo=None):
        if c.returns is not None:
            return self.tenv.parse(c.returns)
        if finfo is None and "::" in c.fn:
            try:
                finfo = self.repo.func(c.fn)
            except Unsupported:
                finfo = None
        if finfo is not None and finfo.node.returns is not None:
            try:
                return self.tenv.parse(finfo.node.returns)
            except Unsupported:
                return ("opaque",)
        return ("none",)

    def contract_env(self, c: Contract, am: dict) -> dict:
        env = dict(am)
        env.update({"arg_" + k: v for k, v in am.items()})
        for cn in c.clock:
            env[cn] = VInt(self.st.read_clock_us(), "dt")
        for k, expr in c.lets.items():
            env[k] = self.eval_spec_expr(expr, env)
        return env

    def emit(self, lst: str, ev: V):
        cur = self.st.ghost.get(lst)
        if cur is None:
            cur = self.new_list([])
            self.st.ghost[lst] = cur
        self.st.heap[(cur.ref, "items")] = tuple(self.st.heap[(cur.ref, "items")]) + (ev,)

    def short(self, c: Contract) -> str:
        return c.fn.split("::")[-1]

    def variant_view(self, c: Contract) -> Contract:
        """while a variant V of a function is verified, a callee that declares a variant of the same name is applied by
        that variant's contract (e.g. the 'interference' specs compose: requeue = ack; enqueue)"""
        vn = getattr(getattr(self, "current_contract", None), "active_variant", None)
        if vn is None or vn not in c.variants or getattr(c, "active_variant", None) == vn:
            return c
        ov = c.variants[vn].get("__override__")
        if not ov:
            return c
        cache = self.__dict__.setdefault("_variant_views", {})
        key = (c.fn, vn)
        if key not in cache:
            import copy as _copy
            c2 = _copy.copy(c)
            for k, val in ov.items():
                setattr(c2, k, val)
            c2.active_variant = vn
            cache[key] = c2
        return cache[key]

    def apply_contract(self, c: Contract, am: dict, node, awaited=False) -> V:
        c = self.variant_view(c)
        st = self.st
        sname = self.short(c)
        if c.bounded and c.bounded_clauses:
            st.assumed_used.add(f"clauses {c.bounded_clauses} of {c.fn} checked only by a bounded stand-in (not proved); its other clauses are proved")
        elif c.bounded:
            st.assumed_used.add(f"contract checked only by a bounded stand-in (not proved): {c.fn}")
        elif c.assumed:
            st.assumed_used.add(f"assumed contract: {c.fn}" + (f" ({c.note})" if c.note else ""))
        else:
            st.notes.append(f"callee by contract: {c.fn}")
        for g, t in c.ghost_init.items():
            if t != "events" and g not in st.ghost:
                # a ghost of the callee that the caller does not track: unconstrained from here on
                st.ghost[g] = mk_sym(st, self.tenv, self.tenv.parse(t), st.fresh_name("ghost_" + g))
        env = self.contract_env(c, am)
        where = f"line {getattr(node, 'lineno', '?')}" if node is not None else ""
        for i, r in enumerate(c.requires):
            t = self.spec_bool(r, env)
            ok = self.check(f"call-pre:{sname}#{i}", t, where=f"{where}: requires {r}")
            if not ok:
                from .loops import PathDone
                raise PathDone()   # the precondition does not hold here: reported; nothing is known beyond this call
            st.assume(t)
        is_async = c.is_async
        if is_async is None and "::" in c.fn:
            try:
                is_async = self.repo.func(c.fn).is_async
            except Unsupported:
                is_async = False
        yields = c.yields if c.yields is not None else bool(is_async)
        if awaited and yields and self.await_hook is not None:
            self.await_hook(self, node, c, "before")
        old = st.snapshot()
        for r in c.raises:
            w = self.spec_bool(r.when, env)
            if r.mode == "iff":
                take = st.branch(w)
            else:
                if z3.is_false(z3.simplify(w)):
                    continue
                take = st.choose(2, f"raise-{r.exc}") == 1
                if take:
                    st.assume(w)
            if take:
                self.havoc(r.modifies, env)
                for nm, (t, _w) in r.fresh.items():
                    env[nm] = mk_sym(st, self.tenv, t, st.fresh_name(nm))
                em2 = {}
                for eff in r.effects:
                    if len(eff) > 2:
                        saved = (st.heap, st.ghost)
                        st.heap, st.ghost = Heap(old[0]), dict(old[1])
                        try:
                            cond = self.spec_bool(eff[2], env, old)
                        finally:
                            st.heap, st.ghost = saved
                        if not st.branch(cond):
                            continue
                    evv = self.eval_spec_expr(eff[1], env, old)
                    self.emit(eff[0], evv)
                    em2.setdefault(eff[0], []).append(evv)
                for g in set(em2) | {g for g, t in c.ghost_init.items() if t == "events"}:
                    env[g] = VTuple(em2.get(g, []))
                exc = VExc(r.exc, anysub=r.anysub, term=st.fresh("exc", Opaque),
                           fields={k: mk_sym(st, self.tenv, t, st.fresh_name(f"exc.{k}")) for k, t in r.fields.items()})
                env2 = dict(env)
                if r.bind:
                    env2[r.bind] = exc
                for _k, ex in r.ensures.items():
                    st.assume(self.spec_bool(ex, env2, old))
                raise PyRaise(exc)
        self.havoc(c.modifies, env)
        for nm, (t, _w) in c.fresh.items():
            env[nm] = mk_sym(st, self.tenv, t, st.fresh_name(nm))
        rt = self.result_type_for(c)
        if c.result_expr is not None:
            result = self.eval_spec_expr(c.result_expr, env, old)
            if isinstance(result, VOpt) and rt[0] != "opt":
                result = result.val
        elif rt == ("none",):
            result = VNone
        else:
            result = mk_sym(st, self.tenv, rt, st.fresh_name(f"ret.{sname}"))
            for fld, fexpr in c.result_fields.items():
                self.set_field(result, fld, self.eval_spec_expr(fexpr, env, old))
        env["result"] = result
        emitted = {}
        for eff in c.effects:
            lst, ev = eff[0], eff[1]
            if len(eff) > 2:
                saved = (st.heap, st.ghost)
                st.heap, st.ghost = Heap(old[0]), dict(old[1])
                try:
                    cond = self.spec_bool(eff[2], env, old)
                finally:
                    st.heap, st.ghost = saved
                if not st.branch(cond):
                    continue
            evv = self.eval_spec_expr(ev, env, old)
            self.emit(lst, evv)
            emitted.setdefault(lst, []).append(evv)
        for g in set(emitted) | {e[0] for e in c.effects} | {g for g, t in c.ghost_init.items() if t == "events"}:
            env[g] = VTuple(emitted.get(g, []))
        env["result"] = result
        if c.ensures and not st.feasible(z3.BoolVal(True)):
            raise PathInfeasible()      # the path was already infeasible before this call
        n_pc = len(st.pc)
        stage = "?"
        try:
            for _k, ex in c.ensures.items():
                stage = f"assume {_k}"
                st.assume(self.spec_bool(ex, env, old))
            stage = "feasibility after all ensures"
            if c.ensures and not st.feasible(z3.BoolVal(True)):
                raise PathInfeasible()
        except PathInfeasible:
            before = st.was_feasible_before(n_pc)
            if before == "unsat":
                raise PathInfeasible() from None     # the quick check above had merely timed out: nothing to blame
            if before == "unknown":
                from .state import Undecided
                raise Undecided(f"cannot tell whether the path was feasible before the call of {c.fn} at line "
                                f"{getattr(node, 'lineno', '?')}") from None
            try:
                import os
                d = os.path.join(os.path.dirname(os.path.dirname(os.path.abspath(__file__))), "out", "undecided")
                os.makedirs(d, exist_ok=True)
                with open(os.path.join(d, f"contract_unsat_{os.getpid()}.smt2"), "w") as fh:
                    fh.write(f"; stage: {stage}\n; path: {st.taken}\n")
                    fh.write(f"; last_check={st.last_check}\n")
                    try:
                        a = st.solver.check()
                        s2 = z3.Solver(); s2.set("timeout", 5000)
                        for t in st.pc:
                            s2.add(t)
                        b = s2.check()
                        s3 = z3.Solver(); s3.set("timeout", 5000); s3.from_string(st.solver.to_smt2())
                        cc = s3.check()
                        fh.write(f"; again={a} fresh_pc={b} fresh_smt2={cc} npc={len(st.pc)} nass={len(st.solver.assertions())} renewals={st.renewals}\n")
                        if str(b) == "unsat":
                            fh.write("; core candidates:\n")
                            for i, t in enumerate(st.pc):
                                s4 = z3.Solver(); s4.set("timeout", 3000)
                                for j, u in enumerate(st.pc):
                                    if j != i:
                                        s4.add(u)
                                fh.write(f";   without #{i}: {s4.check()}\n")
                    except Exception as exc:  # noqa: BLE001
                        fh.write(f"; diag failed {exc}\n")
                    fh.write(st.solver.to_smt2())
            except Exception:  # noqa: BLE001
                pass
            raise Unsupported(f"the contract of {c.fn} is unsatisfiable at this call site (line "
                              f"{getattr(node, 'lineno', '?')}): inconsistent postconditions") from None
        if awaited and yields and self.await_hook is not None:
            self.await_hook(self, node, c, "after")
        return result
