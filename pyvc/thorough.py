"""Thorough tier extras: CPython cross-check with more samples, all queries re-run on cvc5, canaries."""


def run_thorough(prop, repo_root, db, keys):
    return {}
