"""Thorough tier extras.

crosscheck: the proofs say every clause holds for ALL inputs satisfying the preconditions; so for inputs sampled from the
solver (models of the preconditions, diversified) the REAL function, run under /venv/bin/python with a pinned clock, must
satisfy every clause that can be evaluated natively.  A native failure of a clause that was discharged means the engine
(or the contract's native reading) is wrong: CHECKER-ERROR, never a verdict about repid (DESIGN.md 2.8)."""
from __future__ import annotations

import json
import os
import random
import subprocess
import tempfile

import z3

HERE = os.path.dirname(os.path.dirname(os.path.abspath(__file__)))


def sample_models(repo, db, key, n, seed):
    from .contracts import ContractInterp
    from .lib import build_lib
    from .smt import model_to_dict
    from .state import Explorer, State
    from .tys import mk_sym
    from .verify import FunctionVerifier, schema_of
    c = db.contracts[key]
    if c.harness_src or c.variants or c.setup or c.ghost_init and any(t != "events" for t in c.ghost_init.values()):
        return None
    fv = FunctionVerifier(repo, db, c)
    st = State([], Explorer())
    ip = ContractInterp(repo, db, st, build_lib())
    pts = fv.param_types(ip)
    args = {}
    for p, t in {**pts, **{k: v for k, v in c.binds.items() if k not in pts}}.items():
        if t is None:
            return None
        args[p] = mk_sym(st, ip.tenv, t, p)
    env = dict(args)
    try:
        for k, expr in c.lets.items():
            env[k] = ip.eval_spec_expr(expr, env)
        for r in c.requires:
            st.assume(ip.spec_bool(r, env))
        schema = {p: schema_of(ip.tenv, t) for p, t in {**pts, **{k: v for k, v in c.binds.items() if k not in pts}}.items()}
    except Exception:  # noqa: BLE001
        return None
    if "unsupported" in json.dumps(schema):
        return None
    rnd = random.Random(seed)
    models = []
    ints = [(nm, t) for nm, t in st.input_terms.items() if z3.is_int(t)]
    for i in range(n):
        st.solver.push()
        # diversify: pin a few integer inputs to random values in interesting ranges (retry without if infeasible)
        picks = rnd.sample(ints, min(3, len(ints)))
        for nm, t in picks:
            st.solver.add(t == rnd.choice([0, 1, 2, 10**6, 10**6 - 1, 59 * 10**6, 63_800_000_000 * 10**6 + rnd.randrange(10**9),
                                           rnd.randrange(0, 10**7), rnd.randrange(63_000_000_000 * 10**6, 64_000_000_000 * 10**6)]))
        st.solver.set("random_seed", seed + i)
        r = st.solver.check()
        if str(r) != "sat":
            st.solver.pop()
            st.solver.push()
            r = st.solver.check()
        if str(r) == "sat":
            md = model_to_dict(st.solver.model(), st.input_terms)
            dts = [v for k, v in md.items() if isinstance(v, int) and 63_000_000_000 * 10**6 < v < 65_000_000_000 * 10**6]
            base = rnd.choice(dts) if dts else 63_800_000_000 * 10**6
            t0 = max(0, base + rnd.choice([-10**7, -1, 0, 1, 10**6, 5 * 10**6, 10**9]))
            md["__clock__"] = [t0, t0 + rnd.randrange(0, 10**6), t0 + 10**6 + rnd.randrange(0, 10**6)]
            models.append(md)
        st.solver.pop()
    return {"schema": schema, "models": models, "clauses": dict(c.ensures), "clock": list(c.clock)}


def run_thorough(prop, repo_root, db, keys):
    from .runner import load
    repo, _db = load(repo_root)
    seed = int(os.environ.get("VERIF_SEED", "0") or 0)
    n = int(os.environ.get("PYVC_CROSSCHECK_SAMPLES", "40"))
    summary = {"functions": 0, "samples": 0, "clause_evaluations": 0, "skipped_clauses": 0, "native_raised": 0, "disagreements": []}
    for key in keys:
        key = key.split("@")[0]
        try:
            pack = sample_models(repo, db, key, n, seed)
        except Exception:  # noqa: BLE001
            pack = None
        if not pack or not pack["models"]:
            continue
        pack.update({"fn": key, "repo_root": repo_root, "defines": {k: [v[0], v[1]] for k, v in db.defines.items()}})
        with tempfile.NamedTemporaryFile("w", suffix=".json", delete=False, dir=os.path.join(HERE, "out")) as fh:
            json.dump(pack, fh, default=str)
            path = fh.name
        try:
            out = subprocess.run(["/venv/bin/python", os.path.join(HERE, "replaylib", "run.py"), path], capture_output=True,
                                 text=True, timeout=600)
            results = json.loads(out.stdout.strip().splitlines()[-1])
        except Exception:  # noqa: BLE001
            continue
        finally:
            os.unlink(path)
        evaluated = 0
        for model, res in zip(pack["models"], results):
            if "__raised__" in res:
                summary["native_raised"] += 1
                continue
            if "__cannot__" in res or "__error__" in res:
                continue
            summary["samples"] += 1
            for cl, v in res.items():
                if v is True:
                    evaluated += 1
                elif v is False:
                    evaluated += 1
                    summary["disagreements"].append({"fn": key, "clause": cl, "inputs": {k: model[k] for k in list(model)[:12]}})
                else:
                    summary["skipped_clauses"] += 1
        if evaluated:
            summary["functions"] += 1
            summary["clause_evaluations"] += evaluated
    summary["disagreements"] = summary["disagreements"][:10]
    return {"crosscheck": summary}
