"""Python operator semantics on symbolic values."""
from __future__ import annotations

import z3

from .loader import Unsupported
from .values import (Opaque, V, VBool, VBytes, VDict, VEnum, VExc, VInt, VList, VNone, VNoneT, VObj, VOpaque, VOpt, VReal,
                     VSeq, VStr, VTuple, VClass, VFunc, VMap, VSet, term_of)


class PyRaise(Exception):
    """an exception raised by the interpreted program"""

    def __init__(self, exc: VExc):
        super().__init__(exc.cls)
        self.exc = exc


def raise_(cls, msg=None, **kw):
    raise PyRaise(VExc(cls, msg=msg, **kw))


def py_floordiv(a, b):
    """Python // on z3 Ints (floor toward -inf), b != 0"""
    return z3.If(b > 0, a / b, (-a) / (-b))


def py_mod(a, b):
    return a - b * py_floordiv(a, b)


def to_real(v):
    if isinstance(v, VReal):
        return v.term
    if isinstance(v, VInt) and v.kind == "int":
        return z3.ToReal(v.term)
    if isinstance(v, VBool):
        return z3.If(v.term, z3.RealVal(1), z3.RealVal(0))
    raise Unsupported(f"cannot use {v!r} as float")


def trunc_to_int(r):
    """int(float): truncation toward zero"""
    return z3.If(r >= 0, z3.ToInt(r), -z3.ToInt(-r))


def round_half_even(r):
    """Python round()/timedelta's rounding of a real to the nearest integer, ties to even"""
    f = z3.ToInt(r)
    diff = r - z3.ToReal(f)
    return z3.If(diff < z3.RealVal("1/2"), f,
                 z3.If(diff > z3.RealVal("1/2"), f + 1,
                       z3.If(f % 2 == 0, f, f + 1)))


class Ops:
    """mixin for Interp: needs self.st (State), self.spec_mode (bool), self.tenv"""

    # ------------------------------------------------------------------ truthiness
    def truth(self, v: V):
        """z3 Bool term (or python bool) for bool(v)"""
        if isinstance(v, VBool):
            return v.term
        if isinstance(v, VNoneT):
            return False
        if isinstance(v, VInt):
            if v.kind == "dt":
                return True
            return v.term != 0
        if isinstance(v, VReal):
            return v.term != 0
        if isinstance(v, (VStr, VBytes)):
            return z3.Length(v.term) > 0
        if isinstance(v, VOpt):
            inner = self.truth(v.val)
            if inner is True:
                return z3.Not(v.isnone)
            if inner is False:
                return False
            return z3.And(z3.Not(v.isnone), inner)
        if isinstance(v, VTuple):
            return len(v.items) > 0
        if isinstance(v, VList):
            return len(self.st.heap[(v.ref, "items")]) > 0
        if isinstance(v, VDict):
            return len(self.st.heap[(v.ref, "items")]) > 0
        if isinstance(v, VSeq):
            return z3.Length(self.st.heap[(v.ref, "seq")]) > 0
        if getattr(v, "kind", "") == "mapped":
            return True if v.conds else self.truth(v.base)     # a generator object is truthy; the tuple of an image is non-empty iff its base is
        if isinstance(v, VSet):
            return self.st.heap[(v.ref, "set")] != z3.K(v_sort(v.elem), z3.BoolVal(False))
        if isinstance(v, VMap):
            return self.st.heap[(v.ref, "dom")] != z3.K(v_sort(v.key), z3.BoolVal(False))
        if isinstance(v, (VObj, VEnum, VFunc, VClass, VExc)):
            if isinstance(v, VEnum):
                # str/int enums: truthiness of the value; the enums in the tree are all truthy
                return True
            return True
        if isinstance(v, VOpaque):
            # truthiness of an opaque value: an uninterpreted predicate of it
            f = z3.Function("truthy", v.term.sort(), z3.BoolSort())
            return f(v.term)
        raise Unsupported(f"truthiness of {v!r}")

    # ------------------------------------------------------------------ equality
    def eq(self, a: V, b: V):
        """z3 Bool term (or python bool) for a == b"""
        if isinstance(a, VOpt) and isinstance(b, VOpt):
            inner = self.eq(a.val, b.val)
            return z3.Or(z3.And(a.isnone, b.isnone), z3.And(z3.Not(a.isnone), z3.Not(b.isnone), _b(inner)))
        if isinstance(a, VOpt):
            if isinstance(b, VNoneT):
                return a.isnone
            return z3.And(z3.Not(a.isnone), _b(self.eq(a.val, b)))
        if isinstance(b, VOpt):
            return self.eq(b, a)
        if isinstance(a, VNoneT) or isinstance(b, VNoneT):
            return isinstance(a, VNoneT) and isinstance(b, VNoneT)
        if isinstance(a, VInt) and isinstance(b, VInt):
            if a.kind != b.kind:
                return False
            return a.term == b.term
        if isinstance(a, VBool) and isinstance(b, VBool):
            return a.term == b.term
        if isinstance(a, (VInt, VReal, VBool)) and isinstance(b, (VInt, VReal, VBool)):
            if (isinstance(a, VInt) and a.kind != "int") or (isinstance(b, VInt) and b.kind != "int"):
                return False
            if isinstance(a, VInt) and isinstance(b, VBool):
                return a.term == z3.If(b.term, 1, 0)
            if isinstance(a, VBool) and isinstance(b, VInt):
                return b.term == z3.If(a.term, 1, 0)
            return to_real(a) == to_real(b)
        if isinstance(a, VStr) and isinstance(b, VStr):
            return a.term == b.term
        if isinstance(a, VBytes) and isinstance(b, VBytes):
            return a.term == b.term
        if isinstance(a, VEnum) and isinstance(b, VEnum):
            if a.cls != b.cls:
                return False
            return a.term == b.term
        if isinstance(a, VEnum) and isinstance(b, (VStr, VInt)):
            return self.eq(self.enum_value(a), b)
        if isinstance(b, VEnum) and isinstance(a, (VStr, VInt)):
            return self.eq(a, self.enum_value(b))
        if isinstance(a, VOpaque) and isinstance(b, VOpaque):
            return a.term == b.term
        if isinstance(a, VExc) and isinstance(b, VExc):
            if a.term is not None and b.term is not None:
                return a.term == b.term
            return a is b
        if isinstance(a, VExc) and isinstance(b, VOpaque) and a.term is not None:
            return a.term == b.term
        if isinstance(b, VExc) and isinstance(a, VOpaque) and b.term is not None:
            return a.term == b.term
        if isinstance(a, VTuple) and isinstance(b, VTuple):
            if len(a.items) != len(b.items):
                return False
            return _and([self.eq(x, y) for x, y in zip(a.items, b.items)])
        if isinstance(a, (VList, VTuple)) and isinstance(b, (VList, VTuple)):
            ia = self.items_of(a)
            ib = self.items_of(b)
            if isinstance(a, VTuple) != isinstance(b, VTuple):
                return False
            if len(ia) != len(ib):
                return False
            return _and([self.eq(x, y) for x, y in zip(ia, ib)])
        if isinstance(a, VDict) and isinstance(b, VDict):
            da = self.st.heap[(a.ref, "items")]
            dbb = self.st.heap[(b.ref, "items")]
            if set(da) != set(dbb):
                return False
            return _and([self.eq(da[k], dbb[k]) for k in da])
        if isinstance(a, VObj) and isinstance(b, VObj):
            return self.obj_eq(a, b)
        if isinstance(a, VSeq) and isinstance(b, VSeq):
            return self.st.heap[(a.ref, "seq")] == self.st.heap[(b.ref, "seq")]
        if isinstance(a, VSet) and isinstance(b, VSet):
            return self.st.heap[(a.ref, "set")] == self.st.heap[(b.ref, "set")]
        if isinstance(a, VMap) and isinstance(b, VMap):
            return z3.And(self.st.heap[(a.ref, "dom")] == self.st.heap[(b.ref, "dom")],
                          self.st.heap[(a.ref, "val")] == self.st.heap[(b.ref, "val")])
        if getattr(a, "kind", "") == "raw" and getattr(b, "kind", "") == "raw":
            return a.term == b.term
        if isinstance(a, VClass) and isinstance(b, VClass):
            return a.name == b.name
        if isinstance(a, VFunc) and isinstance(b, VFunc):
            return self.func_eq(a, b)
        if isinstance(a, VFunc) != isinstance(b, VFunc) and (isinstance(a, VOpaque) or isinstance(b, VOpaque)):
            # a concrete function object against an opaque callable: equal only if it is that object's token
            f, o = (a, b) if isinstance(a, VFunc) else (b, a)
            return self.func_token(f) == o.term
        # values of different kinds are unequal
        if isinstance(a, VOpaque) or isinstance(b, VOpaque):
            raise Unsupported(f"comparison of opaque with {a!r} / {b!r}")
        return False

    def obj_eq(self, a: VObj, b: VObj):
        if a.symbolic and b.symbolic:
            if a.cls != b.cls:
                return False
            if self.is_value_class(a.cls):
                # frozen dataclass with eq: equality is field-wise (extensional over the UFs)
                return _and([self.eq(self.get_field(a, f), self.get_field(b, f))
                             for f in self.tenv.fields_of(a.cls)] + [True]) if self.spec_structural else a.ref == b.ref
            return a.ref == b.ref
        if a.symbolic != b.symbolic:
            if a.cls != b.cls:
                return False
            if self.is_value_class(a.cls):
                return _and([self.eq(self.get_field(a, f), self.get_field(b, f)) for f in self.tenv.fields_of(a.cls)])
            return False
        if a.ref == b.ref:
            return True
        if a.cls == b.cls and self.is_value_class(a.cls):
            return _and([self.eq(self.get_field(a, f), self.get_field(b, f)) for f in self.tenv.fields_of(a.cls)])
        return False

    def func_eq(self, a, b):
        from .values import VMethod
        if a is b:
            return True
        if isinstance(a, VMethod) and isinstance(b, VMethod):
            if a.name != b.name:
                return False
            if a.obj is None or b.obj is None:
                return a.obj is None and b.obj is None and a.cls == b.cls
            return self.identical(a.obj, b.obj)
        return False

    def func_token(self, f):
        """an Opaque constant standing for a concrete function object (bound methods: per object and name)"""
        from .values import VMethod
        if isinstance(f, VMethod) and isinstance(f.obj, VObj) and not f.obj.symbolic:
            return z3.Const(f"fn:{f.obj.cls}#{f.obj.ref}.{f.name}", Opaque)
        return z3.Const(f"fn:{id(f)}", Opaque)

    def is_value_class(self, cls: str) -> bool:
        ci = self.repo.cls(cls)
        return bool(ci and ci.is_dataclass)

    spec_structural = False

    def identical(self, a: V, b: V):
        """`a is b`"""
        if isinstance(a, VNoneT) or isinstance(b, VNoneT):
            other = b if isinstance(a, VNoneT) else a
            if isinstance(other, VNoneT):
                return True
            if isinstance(other, VOpt):
                return other.isnone
            return False
        if isinstance(a, VOpt) or isinstance(b, VOpt):
            if isinstance(a, VOpt) and isinstance(b, VOpt):
                return z3.Or(z3.And(a.isnone, b.isnone),
                             z3.And(z3.Not(a.isnone), z3.Not(b.isnone), _b(self.identical(a.val, b.val))))
            o, x = (a, b) if isinstance(a, VOpt) else (b, a)
            return z3.And(z3.Not(o.isnone), _b(self.identical(o.val, x)))
        if isinstance(a, VObj) and isinstance(b, VObj):
            if a.symbolic or b.symbolic:
                if a.symbolic and b.symbolic and a.cls == b.cls:
                    return a.ref == b.ref
                return False
            return a.ref == b.ref
        if isinstance(a, (VBool, VEnum, VClass)) or isinstance(b, (VBool, VEnum, VClass)):
            return self.eq(a, b)
        if isinstance(a, (VList, VDict, VSeq, VSet, VMap)) and type(a) is type(b):
            return a.ref == b.ref
        if isinstance(a, VOpaque) and isinstance(b, VOpaque):
            return a.term == b.term
        if isinstance(a, VFunc) and isinstance(b, VFunc):
            return a is b
        if isinstance(a, (VInt, VStr, VReal)) and type(a) is type(b):
            return self.eq(a, b)  # identity of immutable scalars is not relied upon by the tree
        return False

    # ------------------------------------------------------------------ comparisons
    def compare(self, op: str, a: V, b: V):
        if op == "==":
            return self.eq(a, b)
        if op == "!=":
            return _not(self.eq(a, b))
        if op == "is":
            return self.identical(a, b)
        if op == "is not":
            return _not(self.identical(a, b))
        if op in ("in", "not in"):
            r = self.contains(b, a)
            return r if op == "in" else _not(r)
        a = self.unopt(a)
        b = self.unopt(b)
        if isinstance(a, VInt) and isinstance(b, VInt):
            if a.kind != b.kind:
                raise_("TypeError", f"'{op}' between {a.kind} and {b.kind}")
            x, y = a.term, b.term
        elif isinstance(a, (VInt, VReal, VBool)) and isinstance(b, (VInt, VReal, VBool)):
            x, y = to_real(a), to_real(b)
        elif isinstance(a, VStr) and isinstance(b, VStr):
            if op == "<":
                return a.term < b.term
            if op == "<=":
                return a.term <= b.term
            if op == ">":
                return b.term < a.term
            return b.term <= a.term
        elif isinstance(a, VEnum) and isinstance(b, VEnum):
            x, y = term_of(self.enum_value(a)), term_of(self.enum_value(b))
        else:
            raise Unsupported(f"ordering comparison of {a!r} and {b!r}")
        return {"<": x < y, "<=": x <= y, ">": x > y, ">=": x >= y}[op]

    def unopt(self, v: V) -> V:
        """use an Optional as a plain value: in code mode a None here is a TypeError path"""
        if isinstance(v, VOpt):
            if self.spec_mode:
                return v.val
            if self.st.branch(v.isnone):
                raise_("TypeError", "None used as a value")
            return v.val
        return v

    # ------------------------------------------------------------------ arithmetic
    def binop(self, op: str, a: V, b: V) -> V:
        a = self.unopt(a)
        b = self.unopt(b)
        if isinstance(a, VBool):
            a = VInt(z3.If(a.term, 1, 0))
        if isinstance(b, VBool):
            b = VInt(z3.If(b.term, 1, 0))
        if isinstance(a, VInt) and isinstance(b, VInt):
            ka, kb = a.kind, b.kind
            x, y = a.term, b.term
            if op == "+":
                if (ka, kb) == ("int", "int"):
                    return VInt(x + y)
                if (ka, kb) == ("td", "td"):
                    return self._td(x + y)
                if (ka, kb) in (("dt", "td"), ("td", "dt")):
                    return self._dt(x + y)
            elif op == "-":
                if (ka, kb) == ("int", "int"):
                    return VInt(x - y)
                if (ka, kb) == ("td", "td"):
                    return self._td(x - y)
                if (ka, kb) == ("dt", "td"):
                    return self._dt(x - y)
                if (ka, kb) == ("dt", "dt"):
                    return VInt(x - y, "td")
            elif op == "*":
                if (ka, kb) == ("int", "int"):
                    return VInt(x * y)
                if (ka, kb) in (("td", "int"), ("int", "td")):
                    return self._td(x * y)
            elif op in ("//", "%"):
                if (ka, kb) in (("int", "int"), ("td", "td"), ("td", "int")):
                    if op == "%" and (ka, kb) == ("td", "int"):
                        raise_("TypeError", "timedelta % int")
                    self._nonzero(y)
                    q = py_floordiv(x, y)
                    if op == "//":
                        return VInt(q, "td" if (ka, kb) == ("td", "int") else "int")
                    return VInt(x - y * q, "td" if ka == "td" else "int")
            elif op == "/":
                if (ka, kb) in (("int", "int"), ("td", "td")):
                    self._nonzero(y)
                    return VReal(z3.ToReal(x) / z3.ToReal(y))
            elif op == "**":
                if (ka, kb) == ("int", "int"):
                    return self.power(a, b)
            raise_("TypeError", f"unsupported operand kinds {ka} {op} {kb}")
        if isinstance(a, (VInt, VReal)) and isinstance(b, (VInt, VReal)):
            if isinstance(a, VInt) and a.kind == "td" and op == "*":
                # timedelta * float: rounded to microseconds, half to even
                return self._td(round_half_even(z3.ToReal(a.term) * b.term))
            if isinstance(b, VInt) and b.kind == "td" and op == "*":
                return self._td(round_half_even(z3.ToReal(b.term) * a.term))
            x, y = to_real(a), to_real(b)
            self.st.assumed_used.add("float arithmetic treated as exact real arithmetic")
            if op == "+":
                return VReal(x + y)
            if op == "-":
                return VReal(x - y)
            if op == "*":
                return VReal(x * y)
            if op == "/":
                self._nonzero(y)
                return VReal(x / y)
            raise Unsupported(f"float operator {op}")
        if isinstance(a, VStr) and isinstance(b, VStr) and op == "+":
            return VStr(z3.Concat(a.term, b.term))
        if isinstance(a, VSeq) and isinstance(b, VSeq) and op == "+" and self.spec_mode:
            ref = self.st.new_ref()
            cc = getattr(self, "current_contract", None)
            if cc is not None and getattr(cc, "seq_lemmas", False) and getattr(self, "quant_depth", 0) == 0:
                from .loops import named_concat
                self.st.heap[(ref, "seq")] = named_concat(self.st, self.st.heap[(a.ref, "seq")], self.st.heap[(b.ref, "seq")])
            else:
                self.st.heap[(ref, "seq")] = z3.Concat(self.st.heap[(a.ref, "seq")], self.st.heap[(b.ref, "seq")])
            return VSeq(ref, a.elem)
        if isinstance(a, (VList, VTuple)) and isinstance(b, (VList, VTuple)) and op == "+":
            items = list(self.items_of(a)) + list(self.items_of(b))
            if isinstance(a, VTuple):
                return VTuple(items)
            return self.new_list(items)
        raise Unsupported(f"operator {op} on {a!r}, {b!r}")

    def _nonzero(self, y):
        if self.spec_mode:
            return
        if self.st.branch(y == 0):
            raise_("ZeroDivisionError")

    def _td(self, term):
        """a timedelta result: outside timedelta's range CPython raises OverflowError"""
        from .values import TD_MAX_DAYS_US
        if not self.spec_mode:
            lo, hi = -TD_MAX_DAYS_US, TD_MAX_DAYS_US + 86400 * 10**6 - 1
            if self.st.branch(z3.Or(term < lo, term > hi)):
                raise_("OverflowError", "timedelta out of range")
        return VInt(term, "td")

    def _dt(self, term):
        from .values import DT_MAX_US, DT_MIN_US
        if not self.spec_mode:
            if self.st.branch(z3.Or(term < DT_MIN_US, term > DT_MAX_US)):
                raise_("OverflowError", "date value out of range")
        return VInt(term, "dt")

    def power(self, a: VInt, b: VInt) -> V:
        base = z3.simplify(a.term)
        e = z3.simplify(b.term)
        if z3.is_int_value(base) and z3.is_int_value(e) and e.as_long() >= 0:
            return VInt(base.as_long() ** e.as_long())
        if z3.is_int_value(base) and base.as_long() == 2:
            if not self.spec_mode and self.st.branch(b.term < 0):
                raise_("ArithmeticError", "2**negative is a float, not an int")
            return VInt(self.pow2(b.term))
        raise Unsupported("general exponentiation")

    def pow2(self, e):
        """2**e for e >= 0 as an uninterpreted function constrained by ground instances of the
        lemmas pow2_pos and pow2_mono (both proved by induction as separate obligations)."""
        f = z3.Function("pow2", z3.IntSort(), z3.IntSort())
        st = self.st
        t = f(e)
        st.assume(z3.Implies(e >= 0, t >= 1))
        st.assume(z3.Implies(e == 0, t == 1))
        for e2 in st.pow2_args:
            st.assume(z3.Implies(z3.And(e >= 0, e <= e2), t <= f(e2)))
            st.assume(z3.Implies(z3.And(e2 >= 0, e2 <= e), f(e2) <= t))
        st.pow2_args.append(e)
        st.notes.append("uses lemma pow2_pos, pow2_mono")
        return t

    def unary(self, op: str, a: V) -> V:
        if op == "not":
            return VBool(_b(_not(self.truth(a))))
        a = self.unopt(a)
        if op == "-":
            if isinstance(a, VInt) and a.kind in ("int", "td"):
                return VInt(-a.term, a.kind)
            if isinstance(a, VReal):
                return VReal(-a.term)
        if op == "+" and isinstance(a, (VInt, VReal)):
            return a
        raise Unsupported(f"unary {op} on {a!r}")


def v_sort(t):
    from .values import sort_of_type
    return sort_of_type(t)


def _b(x):
    if isinstance(x, bool):
        return z3.BoolVal(x)
    return x


def _not(x):
    if isinstance(x, bool):
        return not x
    return z3.Not(x)


def _and(xs):
    out = []
    for x in xs:
        if x is False:
            return False
        if x is True:
            continue
        out.append(x)
    if not out:
        return True
    return z3.And(*out) if len(out) > 1 else out[0]


def _or(xs):
    out = []
    for x in xs:
        if x is True:
            return True
        if x is False:
            continue
        out.append(x)
    if not out:
        return False
    return z3.Or(*out) if len(out) > 1 else out[0]
