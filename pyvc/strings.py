"""str.split and friends on z3 strings (exact for a non-empty separator)."""
from __future__ import annotations

import z3

from .loader import Unsupported
from .ops import raise_
from .values import *  # noqa: F401,F403


class VSplit(V):
    """the (lazy) result of s.split(sep) without maxsplit: the number of parts is decided by its use"""
    kind = "split"

    def __init__(self, s, sep):
        self.s = s
        self.sep = sep


def _cut(r, sep):
    idx = z3.IndexOf(r, sep, 0)
    head = z3.SubString(r, 0, idx)
    tail = z3.SubString(r, idx + z3.Length(sep), z3.Length(r) - idx - z3.Length(sep))
    return idx, head, tail


def str_split(ip, args, kwargs, node):
    s = args[0]
    if len(args) < 2 and "sep" not in kwargs:
        raise Unsupported("str.split() on whitespace")
    sep = kwargs.get("sep", args[1] if len(args) > 1 else None)
    sc = sep.concrete()
    if sc is None or sc == "":
        raise Unsupported("str.split with a symbolic or empty separator")
    maxsplit = kwargs.get("maxsplit", args[2] if len(args) > 2 else None)
    if maxsplit is None:
        return VSplit(s.term, sep.term)
    k = ip.concrete_key(maxsplit)
    parts = []
    r = s.term
    for _ in range(k):
        idx, head, tail = _cut(r, sep.term)
        if ip.spec_mode:
            raise Unsupported("split with maxsplit in a specification")
        if ip.st.branch(idx < 0):
            break
        parts.append(VStr(head))
        r = tail
    parts.append(VStr(r))
    return ip.new_list(parts)


def split_unpack(ip, v: VSplit, n: int):
    """exactly n parts, else ValueError (too few: a separator is missing; too many: one is left over)"""
    r = v.s
    parts = []
    for _ in range(n - 1):
        idx, head, tail = _cut(r, v.sep)
        if ip.spec_mode:
            ip.st.assume(idx >= 0) if False else None
        elif ip.st.branch(idx < 0):
            raise_("ValueError", "not enough values to unpack")
        parts.append(VStr(head))
        r = tail
    if not ip.spec_mode and ip.st.branch(z3.Contains(r, v.sep)):
        raise_("ValueError", "too many values to unpack")
    parts.append(VStr(r))
    return parts


def split_getitem(ip, v: VSplit, idx):
    i = ip.concrete_key(idx)
    if i == -1:
        last = z3.LastIndexOf(v.s, v.sep)
        start = z3.If(last < 0, 0, last + z3.Length(v.sep))
        return VStr(z3.SubString(v.s, start, z3.Length(v.s) - start))
    if i >= 0:
        r = v.s
        for _ in range(i):
            ix, head, tail = _cut(r, v.sep)
            if not ip.spec_mode and ip.st.branch(ix < 0):
                raise_("IndexError")
            r = tail
        ix, head, tail = _cut(r, v.sep)
        return VStr(z3.If(ix < 0, r, head))
    raise Unsupported("split()[negative index other than -1]")


def str_slice(ip, s, lo, hi):
    n = z3.Length(s.term)
    a = lo.term if lo is not None else z3.IntVal(0)
    b = hi.term if hi is not None else n
    a = z3.If(a < 0, z3.If(a + n < 0, 0, a + n), z3.If(a > n, n, a))
    b = z3.If(b < 0, z3.If(b + n < 0, 0, b + n), z3.If(b > n, n, b))
    return VStr(z3.SubString(s.term, a, z3.If(b > a, b - a, 0)))


def str_endswith(ip, args, kwargs, node):
    return VBool(z3.SuffixOf(args[1].term, args[0].term))


def install(lib):
    lib["__str_split__"] = str_split
    lib["__unpack__"]["split"] = split_unpack
    lib["__getitem__"]["split"] = split_getitem
    lib["__slice__"]["str"] = str_slice
    lib["__methods__"][("str", "endswith")] = VBuiltin("str.endswith", str_endswith)
