"""str.split and friends on z3 strings (exact for a non-empty separator)."""
from __future__ import annotations

import z3

from .loader import Unsupported
from .ops import raise_
from .values import *  # noqa: F401,F403


class VSplit(V):
    """the (lazy) result of s.split(sep) without maxsplit: the number of parts is decided by its use"""
    kind = "split"

    def __init__(self, s, sep):
        self.s = s
        self.sep = sep


def _cut(r, sep):
    idx = z3.IndexOf(r, sep, 0)
    head = z3.SubString(r, 0, idx)
    tail = z3.SubString(r, idx + z3.Length(sep), z3.Length(r) - idx - z3.Length(sep))
    return idx, head, tail


def _flatten(t):
    if z3.is_app(t) and t.decl().kind() == z3.Z3_OP_SEQ_CONCAT:
        out = []
        for c in t.children():
            out.extend(_flatten(c))
        return out
    return [t]


def structural_split(ip, term, sep: str):
    """If `term` is a concatenation of literals and of pieces that provably cannot contain `sep`, return the exact list
    of parts (z3 terms) of term.split(sep); otherwise None (the caller falls back to the IndexOf encoding)."""
    st = ip.st
    pieces = []
    for p in _flatten(z3.simplify(term)):
        while z3.is_app(p) and p.decl().kind() == z3.Z3_OP_ITE:
            c, a, b = p.children()
            if st.must(c):
                p = a
            elif st.must(z3.Not(c)):
                p = b
            else:
                return None
        pieces.extend(_flatten(p))
    parts = [[]]
    for p in pieces:
        if z3.is_string_value(p):
            segs = p.as_string().split(sep)
            parts[-1].append(z3.StringVal(segs[0]))
            for sg in segs[1:]:
                parts.append([z3.StringVal(sg)])
            continue
        atomic = False
        if z3.is_app(p) and p.decl().kind() == z3.Z3_OP_INT_TO_STR and not any(ch.isdigit() for ch in sep):
            atomic = True           # int.to.str yields only digits (or the empty string)
        elif st.must(z3.Not(z3.Contains(p, z3.StringVal(sep)))):
            atomic = True
        if not atomic:
            return None
        parts[-1].append(p)
    out = []
    for seg in parts:
        seg = [x for x in seg if not (z3.is_string_value(x) and x.as_string() == "")] or [z3.StringVal("")]
        out.append(seg[0] if len(seg) == 1 else z3.Concat(*seg))
    return out


def str_split(ip, args, kwargs, node):
    s = args[0]
    if len(args) < 2 and "sep" not in kwargs:
        raise Unsupported("str.split() on whitespace")
    sep = kwargs.get("sep", args[1] if len(args) > 1 else None)
    sc = sep.concrete()
    if sc is None or sc == "":
        raise Unsupported("str.split with a symbolic or empty separator")
    maxsplit = kwargs.get("maxsplit", args[2] if len(args) > 2 else None)
    if maxsplit is None:
        return VSplit(s.term, sep.term)
    k = ip.concrete_key(maxsplit)
    parts = []
    r = s.term
    for _ in range(k):
        idx, head, tail = _cut(r, sep.term)
        if ip.spec_mode:
            raise Unsupported("split with maxsplit in a specification")
        if ip.st.branch(idx < 0):
            break
        parts.append(VStr(head))
        r = tail
    parts.append(VStr(r))
    return ip.new_list(parts)


def split_unpack(ip, v: VSplit, n: int):
    """exactly n parts, else ValueError (too few: a separator is missing; too many: one is left over)"""
    sepc = z3.simplify(v.sep)
    if z3.is_string_value(sepc):
        exact = structural_split(ip, v.s, sepc.as_string())
        if exact is not None:
            if len(exact) != n:
                raise_("ValueError", "wrong number of values to unpack")
            return [VStr(x) for x in exact]
    r = v.s
    parts = []
    for _ in range(n - 1):
        idx, head, tail = _cut(r, v.sep)
        if ip.spec_mode:
            ip.st.assume(idx >= 0) if False else None
        elif ip.st.branch(idx < 0):
            raise_("ValueError", "not enough values to unpack")
        parts.append(VStr(head))
        r = tail
    if not ip.spec_mode and ip.st.branch(z3.Contains(r, v.sep)):
        raise_("ValueError", "too many values to unpack")
    parts.append(VStr(r))
    return parts


def split_getitem(ip, v: VSplit, idx):
    i = ip.concrete_key(idx)
    sepc = z3.simplify(v.sep)
    if z3.is_string_value(sepc):
        exact = structural_split(ip, v.s, sepc.as_string())
        if exact is not None:
            if i >= len(exact) or i < -len(exact):
                raise_("IndexError")
            return VStr(exact[i])
    if i == -1:
        # the last part: s == pre ++ sep ++ part with no separator in part, or the whole string when there is none
        # (z3's seq.last_indexof is avoided: it produced models that do not satisfy the constraints)
        pre = ip.st.fresh("pre", z3.StringSort())
        part = ip.st.fresh("last_part", z3.StringSort())
        ip.st.assume(z3.Not(z3.Contains(part, v.sep)))
        ip.st.assume(z3.If(z3.Contains(v.s, v.sep), v.s == z3.Concat(pre, v.sep, part), part == v.s))
        return VStr(part)
    if i >= 0:
        r = v.s
        for _ in range(i):
            ix, head, tail = _cut(r, v.sep)
            if not ip.spec_mode and ip.st.branch(ix < 0):
                raise_("IndexError")
            r = tail
        ix, head, tail = _cut(r, v.sep)
        return VStr(z3.If(ix < 0, r, head))
    raise Unsupported("split()[negative index other than -1]")


def str_slice(ip, s, lo, hi):
    n = z3.Length(s.term)
    a = lo.term if lo is not None else z3.IntVal(0)
    b = hi.term if hi is not None else n
    a = z3.If(a < 0, z3.If(a + n < 0, 0, a + n), z3.If(a > n, n, a))
    b = z3.If(b < 0, z3.If(b + n < 0, 0, b + n), z3.If(b > n, n, b))
    return VStr(z3.SubString(s.term, a, z3.If(b > a, b - a, 0)))


def str_endswith(ip, args, kwargs, node):
    return VBool(z3.SuffixOf(args[1].term, args[0].term))


def install(lib):
    lib["__str_split__"] = str_split
    lib["__unpack__"]["split"] = split_unpack
    lib["__getitem__"]["split"] = split_getitem
    lib["__slice__"]["str"] = str_slice
    lib["__methods__"][("str", "endswith")] = VBuiltin("str.endswith", str_endswith)
