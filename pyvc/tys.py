"""Type strings / annotations -> type tuples, and creation of symbolic values of a type."""
from __future__ import annotations

import ast

import z3

from .loader import Unsupported
from .values import (DT_MAX_US, DT_MIN_US, Opaque, TD_MAX_DAYS_US, V, VBool, VBytes, VDict, VEnum, VInt, VList,
                     VMap, VNone, VObj, VOpaque, VOpt, VReal, VSeq, VSet, VStr, VTuple, obj_sort, sort_of_type)

BASIC = {
    "int": ("int",), "bool": ("bool",), "str": ("str",), "float": ("float",),
    "timedelta": ("td",), "datetime": ("dt",), "None": ("none",), "Any": ("opaque",),
    "opaque": ("opaque",), "bytes": ("bytes",), "object": ("opaque",), "Exception": ("exc",),
    "EncodedPayloadT": ("str",),
}


class TypeEnv:
    def __init__(self, repo, specdb):
        self.repo = repo
        self.db = specdb

    def parse(self, s) -> tuple:
        if isinstance(s, tuple):
            return s
        if isinstance(s, str):
            try:
                node = ast.parse(s.strip(), mode="eval").body
            except SyntaxError as exc:
                raise Unsupported(f"bad type string {s!r}") from exc
        else:
            node = s
        return self._p(node)

    def _p(self, n) -> tuple:
        if isinstance(n, ast.Constant):
            if n.value is None:
                return ("none",)
            if isinstance(n.value, str):
                return self.parse(n.value)
        if isinstance(n, ast.Name):
            return self._name(n.id)
        if isinstance(n, ast.Attribute):
            return self._name(n.attr)
        if isinstance(n, ast.BinOp) and isinstance(n.op, ast.BitOr):
            parts = self._flatten_or(n)
            return self._union(parts)
        if isinstance(n, ast.Subscript):
            head = ast.unparse(n.value).split(".")[-1]
            args = n.slice.elts if isinstance(n.slice, ast.Tuple) else [n.slice]
            if head in ("Optional",):
                return ("opt", self._p(args[0]))
            if head == "Union":
                return self._union([self._p(a) for a in args])
            if head in ("list", "List", "Seq", "seq", "Sequence", "Iterable"):
                return ("seq", self._p(args[0]))
            if head in ("set", "Set", "frozenset", "FrozenSet"):
                return ("set", self._p(args[0]))
            if head == "defaultdict":
                return ("map", self._p(args[0]), self._p(args[1]), "default")
            if head in ("dict", "Dict", "Map", "map", "Mapping"):
                return ("map", self._p(args[0]), self._p(args[1]))
            if head == "omap":     # sidecar only: a dict whose insertion order matters (keys kept as a sequence as well)
                return ("map", self._p(args[0]), self._p(args[1]), "ordered")
            if head in ("tuple", "Tuple"):
                return ("tuple", tuple(self._p(a) for a in args))
            if head == "arr":
                return ("arr", self._p(args[0]))
            if head in ("hmap",):   # dict of mutable heap objects (sidecar only): hmap[K, Class]
                return ("hmap", self._p(args[0]), ast.unparse(args[1]).strip("'\""))
            if head in ("clist",):   # list with a concrete number of items (sidecar only)
                return ("clist", self._p(args[0]))
            if head in ("cdict",):
                return ("cdict",)
            if head in ("Callable", "Coroutine", "Awaitable"):
                return ("opaque",)
            if head in ("type", "Type"):
                return ("opaque",)
            if head == "func":
                return ("func", ast.unparse(args[0]).strip("'\""))
            if head == "sym":     # immutable object with symbolic identity (sidecar only)
                nm = ast.unparse(args[0]).strip("'\"")
                return ("symobj", self.db.aliases.get(nm, nm))
            if head == "cls":
                return ("cls", ast.unparse(args[0]).strip("'\""))
            if head in ("ClassVar", "Final", "Annotated"):
                return self._p(args[0])
            return self._name(head)
        raise Unsupported(f"unsupported annotation {ast.unparse(n)}")

    def _flatten_or(self, n):
        if isinstance(n, ast.BinOp) and isinstance(n.op, ast.BitOr):
            return self._flatten_or(n.left) + self._flatten_or(n.right)
        return [self._p(n)]

    def _union(self, parts):
        non = [p for p in parts if p != ("none",)]
        if len(non) == 1 and len(parts) == 2:
            return ("opt", non[0])
        if len(non) == 1:
            return non[0]
        return ("opaque",)

    def _name(self, name: str) -> tuple:
        name = self.db.aliases.get(name, name)
        if name in BASIC:
            return BASIC[name]
        ci = self.repo.cls(name)
        if name in self.db.symbolic_classes:
            return ("symobj", name)
        if ci is not None:
            if ci.is_enum:
                return ("enum", name)
            return ("obj", name)
        if name in self.db.shapes or name in self.db.extern_classes:
            return ("obj", name)
        return ("opaque",)

    # ------------------------------------------------------------------ class shapes
    def fields_of(self, cls: str) -> dict:
        """field name -> type tuple, for heap-allocated objects of class cls"""
        out = {}
        ci = self.repo.cls(cls)
        if ci is not None:
            for c in reversed(self.repo.mro(ci)):
                if c.is_dataclass or "NamedTuple" in c.bases:
                    for (fname, ann, _d) in c.fields:
                        try:
                            out[fname] = self.parse(ann) if ann is not None else ("opaque",)
                        except Unsupported:
                            out[fname] = ("opaque",)
                sh = self.db.shapes.get(c.name)
                if sh:
                    for k, v in sh.items():
                        out[k] = self.parse(v)
        else:
            for k, v in self.db.shapes.get(cls, {}).items():
                out[k] = self.parse(v)
            for b in self.db.extern_classes.get(cls, {}).get("bases", []):
                for k, v in self.fields_of(b).items():
                    out.setdefault(k, v)
        return out

    def enum_members(self, cls: str):
        ci = self.repo.cls(cls)
        if ci is None:
            raise Unsupported(f"unknown enum {cls}")
        return [(n, v) for (n, v) in ci.enum_members if not n.startswith("_")]


SPECIAL_TYPES: dict = {}      # class name -> constructor(st, name) for library objects with a built-in model


def mk_sym(st, tenv: TypeEnv, t, name: str, depth=0) -> V:
    """a fresh symbolic value of type t.  Objects are allocated on the heap with symbolic fields."""
    t = tenv.parse(t)
    k = t[0]
    if k == "obj" and t[1] in SPECIAL_TYPES:
        return SPECIAL_TYPES[t[1]](st, name)
    if k == "int":
        c = z3.Int(st.fresh_name(name))
        st.input_terms[name] = c
        return VInt(c)
    if k == "td":
        c = z3.Int(st.fresh_name(name))
        st.assume(z3.And(c >= -TD_MAX_DAYS_US, c <= TD_MAX_DAYS_US + 86400 * 10**6 - 1))
        st.input_terms[name] = c
        return VInt(c, "td")
    if k == "dt":
        c = z3.Int(st.fresh_name(name))
        st.assume(z3.And(c >= DT_MIN_US, c <= DT_MAX_US))
        st.input_terms[name] = c
        return VInt(c, "dt")
    if k == "bool":
        c = z3.Bool(st.fresh_name(name))
        st.input_terms[name] = c
        return VBool(c)
    if k == "float":
        c = z3.Real(st.fresh_name(name))
        st.input_terms[name] = c
        return VReal(c)
    if k == "str":
        c = z3.String(st.fresh_name(name))
        st.input_terms[name] = c
        return VStr(c)
    if k == "bytes":
        c = z3.String(st.fresh_name(name))
        st.input_terms[name] = c
        b = VBytes(c)
        b.arbitrary = True   # bytes from outside: decoding them may raise UnicodeDecodeError
        return b
    if k == "none":
        return VNone
    if k == "cls":
        from .values import VClass
        return VClass(t[1])
    if k in ("opaque", "func", "exc"):
        c = z3.Const(st.fresh_name(name), Opaque)
        st.input_terms[name] = c
        return VOpaque(c, tag=t[1] if k == "func" and len(t) > 1 else None)
    if k == "enum":
        c = z3.Int(st.fresh_name(name))
        n = len(tenv.enum_members(t[1]))
        st.assume(z3.And(c >= 0, c < n))
        st.input_terms[name] = c
        return VEnum(t[1], c)
    if k == "opt":
        b = z3.Bool(st.fresh_name(name + "?none"))
        st.input_terms[name + "?none"] = b
        return VOpt(b, mk_sym(st, tenv, t[1], name, depth))
    if k == "obj":
        if depth > 6:
            raise Unsupported(f"object nesting too deep at {name}")
        ref = st.new_ref()
        o = VObj(t[1], ref)
        for f, ft in tenv.fields_of(t[1]).items():
            st.heap[(ref, f)] = mk_sym(st, tenv, ft, f"{name}.{f}", depth + 1)
        return o
    if k == "symobj":   # immutable object with symbolic identity (fields via uninterpreted functions)
        c = z3.Const(st.fresh_name(name), obj_sort(t[1]))
        st.input_terms[name] = c
        return VObj(t[1], c)
    if k == "tuple":
        return VTuple([mk_sym(st, tenv, x, f"{name}[{i}]", depth) for i, x in enumerate(t[1])])
    if k == "seq":
        ref = st.new_ref()
        et = elem_type(t[1])
        c = z3.Const(st.fresh_name(name), z3.SeqSort(sort_of_type(et)))
        st.input_terms[name] = c
        st.heap[(ref, "seq")] = c
        return VSeq(ref, et)
    if k == "set":
        ref = st.new_ref()
        et = elem_type(t[1])
        c = z3.Const(st.fresh_name(name), z3.ArraySort(sort_of_type(et), z3.BoolSort()))
        st.input_terms[name] = c
        st.heap[(ref, "set")] = c
        return VSet(ref, et)
    if k == "map":
        ref = st.new_ref()
        kt, vt = elem_type(t[1]), t[2]
        dom = z3.Const(st.fresh_name(name + ".dom"), z3.ArraySort(sort_of_type(kt), z3.BoolSort()))
        st.heap[(ref, "dom")] = dom
        st.input_terms[name + ".dom"] = dom
        if vt[0] in ("seq", "set"):
            inner = z3.SeqSort(sort_of_type(elem_type(vt[1]))) if vt[0] == "seq" else z3.ArraySort(sort_of_type(elem_type(vt[1])), z3.BoolSort())
            val = z3.Const(st.fresh_name(name + ".val"), z3.ArraySort(sort_of_type(kt), inner))
        else:
            val = z3.Const(st.fresh_name(name + ".val"), z3.ArraySort(sort_of_type(kt), sort_of_type(elem_type(vt))))
        st.heap[(ref, "val")] = val
        st.input_terms[name + ".val"] = val
        m = VMap(ref, kt, vt)
        m.default = len(t) > 3 and t[3] == "default"
        m.ordered = len(t) > 3 and t[3] == "ordered"
        if m.ordered:
            fresh_order(st, ref, kt, name)
        return m
    if k == "arr":
        from .values import VArr
        ref = st.new_ref()
        et = elem_type(t[1])
        n = z3.Int(st.fresh_name(name + ".len"))
        st.assume(n >= 0)
        st.heap[(ref, "len")] = n
        st.heap[(ref, "arr")] = z3.Const(st.fresh_name(name + ".arr"), z3.ArraySort(z3.IntSort(), sort_of_type(et)))
        st.input_terms[name + ".len"] = n
        return VArr(ref, et)
    if k == "hmap":
        from .loops import VHMap
        ref = st.new_ref()
        dom = z3.Const(st.fresh_name(name + ".dom"), z3.ArraySort(sort_of_type(t[1]), z3.BoolSort()))
        st.heap[(ref, "dom")] = dom
        st.input_terms[name + ".dom"] = dom
        st.heap[(ref, "cache")] = ()
        return VHMap(ref, t[1], tenv.db.aliases.get(t[2], t[2]))
    if k == "clist":
        ref = st.new_ref()
        st.heap[(ref, "items")] = ()
        return VList(ref)
    if k == "cdict":
        ref = st.new_ref()
        st.heap[(ref, "items")] = {}
        return VDict(ref)
    raise Unsupported(f"cannot create symbolic value of type {t}")


def fresh_order(st, ref, kt, name):
    """insertion order of a dict: (ref,'keys') is a sequence of distinct keys enumerating exactly the domain;
    (ref,'pos') gives the position of each key (a Skolem function for 'every key of the domain occurs')"""
    ks = sort_of_type(kt)
    keys = z3.Const(st.fresh_name(name + ".keys"), z3.SeqSort(ks))
    pos = z3.Function(st.fresh_name(name + ".pos"), ks, z3.IntSort())
    dom = st.heap[(ref, "dom")]
    i, j = z3.Ints(st.fresh_name("i") + " " + st.fresh_name("j"))
    k = z3.Const(st.fresh_name("k"), ks)
    st.assume(z3.ForAll([i], z3.Implies(z3.And(i >= 0, i < z3.Length(keys)), z3.And(z3.Select(dom, keys[i]), pos(keys[i]) == i)),
                        patterns=[keys[i]]))
    st.assume(z3.ForAll([k], z3.Implies(z3.Select(dom, k), z3.And(pos(k) >= 0, pos(k) < z3.Length(keys), keys[pos(k)] == k)),
                        patterns=[z3.Select(dom, k)]))
    st.heap[(ref, "keys")] = keys
    st.heap[(ref, "pos")] = pos
    st.input_terms[name + ".keys"] = keys


def elem_type(t):
    """element types of symbolic collections: objects become symbolic-identity objects"""
    if t[0] in ("obj", "symobj"):
        return ("obj", t[1])
    return t
