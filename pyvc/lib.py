"""Models of the builtins / stdlib names the functions under contract use (DESIGN.md 2.5, appendix A).

Everything here is part of the trusted base: each entry states the CPython semantics it encodes.
Library functions with non-trivial behaviour (asyncio, redis, aiormq, json, pydantic) are NOT here:
they are assumed *contracts* in /verif/contracts/stdlib.py and are listed in the evidence.
"""
from __future__ import annotations

import z3

from .interp import EXC_PARENTS, Interp, exc_is_sub
from .loader import Unsupported
from .ops import PyRaise, _and, _b, _not, _or, raise_, round_half_even, to_real, trunc_to_int
from .values import *  # noqa: F401,F403
from .values import EPOCH_US, TD_MAX_DAYS_US, term_of

US = 10**6


def B(name):
    def deco(fn):
        return VBuiltin(name, fn)
    return deco


# ------------------------------------------------------------------ numeric builtins
def _minmax(is_min):
    def fn(ip: Interp, args, kwargs, node):
        if len(args) == 1 and isinstance(args[0], VMap):
            return ip.lib["__minkey__" if is_min else "__maxkey__"](ip, args[0])
        if len(args) == 1:
            args = ip.iterate(args[0])
        if not args:
            raise_("ValueError", "min/max of empty sequence")
        cur = ip.unopt(args[0])
        for nxt in args[1:]:
            nxt = ip.unopt(nxt)
            if isinstance(cur, VInt) and isinstance(nxt, VInt) and cur.kind == nxt.kind:
                c = (nxt.term < cur.term) if is_min else (nxt.term > cur.term)
                cur = VInt(z3.If(c, nxt.term, cur.term), cur.kind)
            elif isinstance(cur, (VInt, VReal)) and isinstance(nxt, (VInt, VReal)):
                a, b = to_real(cur), to_real(nxt)
                c = (b < a) if is_min else (b > a)
                cur = VReal(z3.If(c, b, a))
            else:
                raise Unsupported("min/max of non-numeric values")
        return cur
    return fn


def b_len(ip, args, kwargs, node):
    v = ip.unopt(args[0])
    if isinstance(v, (VTuple, VList)):
        return VInt(len(ip.items_of(v)))
    if isinstance(v, VDict):
        return VInt(len(ip.st.heap[(v.ref, "items")]))
    if isinstance(v, (VStr, VBytes)):
        return VInt(z3.Length(v.term))
    if isinstance(v, VSeq):
        return VInt(z3.Length(ip.st.heap[(v.ref, "seq")]))
    if isinstance(v, VSet):
        # cardinality of a symbolic set: an uninterpreted, non-negative function of the set (0 for the empty set)
        arr = ip.st.heap[(v.ref, "set")]
        card = z3.Function("card_" + str(arr.sort().domain()), arr.sort(), z3.IntSort())(arr)
        ip.st.assume(card >= 0)
        ip.st.assume((card == 0) == (arr == z3.K(arr.sort().domain(), z3.BoolVal(False))))
        return VInt(card)
    h = ip.lib.get("__len__", {}).get(v.kind)
    if h:
        return h(ip, v)
    if isinstance(v, VObj):
        c = ip.find_contract_for_method(v.cls, "__len__")
        if c is not None:
            return ip.apply_contract(c, {"self": v}, node)
    raise Unsupported(f"len of {v!r}")


def b_int(ip, args, kwargs, node):
    v = ip.unopt(args[0])
    if isinstance(v, VInt) and v.kind == "int":
        return v
    if isinstance(v, VBool):
        return VInt(z3.If(v.term, 1, 0))
    if isinstance(v, VReal):
        return VInt(trunc_to_int(v.term))
    if isinstance(v, VStr):
        t = z3.simplify(v.term)
        if z3.is_app(t) and t.decl().kind() == z3.Z3_OP_INT_TO_STR and ip.st.must(t.children()[0] >= 0):
            return VInt(t.children()[0])        # int(str(n)) == n for n >= 0
        # int(str): defined for decimal digit strings; anything else raises ValueError
        ok = z3.StrToInt(v.term) >= 0
        if not ip.spec_mode and ip.st.branch(z3.Not(ok)):
            raise_("ValueError", "invalid literal for int()")
        return VInt(z3.StrToInt(v.term))
    raise Unsupported(f"int() of {v!r}")


def b_round(ip, args, kwargs, node):
    """round(x) with one argument: nearest integer, ties to even"""
    if len(args) != 1:
        raise Unsupported("round with ndigits")
    v = ip.unopt(args[0])
    if isinstance(v, VInt) and v.kind == "int":
        return v
    if isinstance(v, VReal):
        return VInt(round_half_even(v.term))
    raise Unsupported(f"round() of {v!r}")


def b_divmod(ip, args, kwargs, node):
    """divmod(a, b) for ints, and for a real a with a positive integer constant b (floor division)"""
    a, b = ip.unopt(args[0]), ip.unopt(args[1])
    if isinstance(a, VInt) and isinstance(b, VInt) and a.kind == "int" and b.kind == "int":
        if not ip.spec_mode and ip.st.branch(b.term == 0):
            raise_("ZeroDivisionError")
        return VTuple([VInt(a.term / b.term if False else z3.If(b.term > 0, a.term / b.term, -((-a.term) / b.term))),
                       VInt(a.term - b.term * z3.If(b.term > 0, a.term / b.term, -((-a.term) / b.term)))])
    if isinstance(a, VReal) and isinstance(b, VInt):
        bt = z3.simplify(b.term)
        if z3.is_int_value(bt) and bt.as_long() > 0:
            q = z3.ToInt(a.term / bt.as_long())           # floor for a positive divisor
            return VTuple([VReal(z3.ToReal(q)), VReal(a.term - z3.ToReal(q) * bt.as_long())])
    raise Unsupported(f"divmod({a!r}, {b!r})")


def _strip(ip, args, kwargs, node, left, right):
    """s.strip / lstrip / rstrip(chars) for a constant set of characters: s = l ++ r ++ t with l, t made of those characters only
    and r neither starting (left) nor ending (right) with one"""
    s = args[0]
    if len(args) < 2:
        raise Unsupported("strip() of whitespace")
    cs = args[1].concrete() if isinstance(args[1], VStr) else None
    if not cs:
        raise Unsupported("strip with a symbolic character set")
    st = ip.st
    st.uses_strings = True
    only = z3.Star(z3.Union(*[z3.Re(c) for c in cs])) if len(cs) > 1 else z3.Star(z3.Re(cs))
    r = st.fresh("stripped", z3.StringSort())
    l_ = st.fresh("lead", z3.StringSort()) if left else z3.StringVal("")
    t_ = st.fresh("trail", z3.StringSort()) if right else z3.StringVal("")
    st.assume(s.term == z3.Concat(l_, r, t_))
    if left:
        st.assume(z3.InRe(l_, only))
        st.assume(z3.And(*[z3.Not(z3.PrefixOf(z3.StringVal(c), r)) for c in cs]))
    if right:
        st.assume(z3.InRe(t_, only))
        st.assume(z3.And(*[z3.Not(z3.SuffixOf(z3.StringVal(c), r)) for c in cs]))
    return VStr(r)


def b_ceil(ip, args, kwargs, node):
    v = ip.unopt(args[0])
    if isinstance(v, VInt) and v.kind == "int":
        return v
    r = to_real(v)
    return VInt(-z3.ToInt(-r))


def b_floor(ip, args, kwargs, node):
    v = ip.unopt(args[0])
    if isinstance(v, VInt) and v.kind == "int":
        return v
    return VInt(z3.ToInt(to_real(v)))


def b_float(ip, args, kwargs, node):
    v = ip.unopt(args[0])
    if isinstance(v, VReal):
        return v
    if isinstance(v, VInt) and v.kind == "int":
        ip.st.assumed_used.add("float(int) treated as exact")
        return VReal(z3.ToReal(v.term))
    raise Unsupported(f"float() of {v!r}")


def b_str(ip, args, kwargs, node):
    if not args:
        return VStr("")
    return ip.to_str(args[0])


def b_bool(ip, args, kwargs, node):
    return VBool(_b(ip.truth(args[0])))


def b_isinstance(ip, args, kwargs, node):
    v, t = args
    classes = [x for x in (ip.items_of(t) if isinstance(t, VTuple) else [t])]
    names = []
    for c in classes:
        if isinstance(c, VClass):
            names.append(c.name)
        elif isinstance(c, VBuiltin):
            names.append(c.name)
        elif isinstance(c, VModule):
            names.append(c.name)
        else:
            raise Unsupported(f"isinstance against {c!r}")
    if isinstance(v, VOpt):
        if ip.spec_mode:
            v = v.val
        elif ip.st.branch(v.isnone):
            return VBool("NoneType" in names)
        else:
            v = v.val
    for n in names:
        if _isinst(ip, v, n):
            return VBool(True)
    return VBool(False)


def _isinst(ip, v, n) -> bool:
    n = ip.db.aliases.get(n, n)
    if isinstance(v, VStr):
        return n == "str"
    if isinstance(v, VBytes):
        return n == "bytes"
    if isinstance(v, VBool):
        return n in ("bool", "int")
    if isinstance(v, VInt):
        return {"int": n == "int", "td": n == "timedelta", "dt": n in ("datetime", "date")}[v.kind]
    if isinstance(v, VReal):
        return n == "float"
    if isinstance(v, VDict):
        return n in ("dict", "Dict", "Mapping")
    if isinstance(v, VList):
        return n in ("list", "List")
    if isinstance(v, VTuple):
        return n in ("tuple", "Tuple") or n == getattr(v, "cls", None)
    if isinstance(v, VNoneT):
        return n == "NoneType"
    if isinstance(v, VObj):
        ci = ip.repo.cls(v.cls)
        if ci is not None:
            if any(c.name == n for c in ip.repo.mro(ci)):
                return True
            # structural protocols (runtime_checkable): decided by the sidecar's protocol table
            return n in ip.db.shapes.get("__protocols__", {}).get(v.cls, ())
        return n == v.cls or n in ip._ext_bases(v.cls) or n in ip.db.shapes.get("__protocols__", {}).get(v.cls, ())
    if isinstance(v, VExc):
        return exc_is_sub(v.cls, n)
    if isinstance(v, VEnum):
        ci = ip.repo.cls(v.cls)
        return n == v.cls or n in ci.bases
    if isinstance(v, VOpaque):
        raise Unsupported(f"isinstance of an opaque value against {n}")
    return False


def b_getattr(ip, args, kwargs, node):
    o, name = args[0], args[1].concrete()
    if name is None:
        raise Unsupported("getattr with symbolic name")
    try:
        return ip.getattr(o, name)
    except PyRaise as pr:
        if pr.exc.cls == "AttributeError" and len(args) > 2:
            return args[2]
        raise
    except (Unsupported, KeyError):
        if len(args) > 2 and isinstance(o, VObj) and not o.symbolic:
            return args[2]
        raise


def b_hasattr(ip, args, kwargs, node):
    o, name = args[0], args[1].concrete()
    if isinstance(o, VObj) and not o.symbolic:
        if (o.ref, name) in ip.st.heap:
            return VBool(True)
        ci = ip.repo.cls(o.cls)
        if ci is not None and (ip.repo.find_method(ci, name) or ip.repo.find_class_attr(ci, name)):
            return VBool(True)
        return VBool(False)
    raise Unsupported("hasattr on a non-heap object")


def b_setattr(ip, args, kwargs, node):
    o, name, v = args
    n = name.concrete()
    if n is None:
        raise Unsupported("setattr with symbolic name")
    ip.setattr(o, n, v)
    return VNone


def b_object_setattr(ip, args, kwargs, node):
    o, name, v = args
    n = name.concrete()
    if n is None or not isinstance(o, VObj):
        raise Unsupported("object.__setattr__")
    if isinstance(o, VOpt):
        o = ip.unopt(o)
    ip.set_field(o, n, v)
    return VNone


def b_deepcopy(ip, args, kwargs, node):
    return ip.deepcopy(args[0])


def b_type(ip, args, kwargs, node):
    v = args[0]
    if isinstance(v, VOpt) and isinstance(v.val, VOpaque):
        f = z3.Function("type_of", Opaque, Opaque)
        return VOpaque(z3.If(v.isnone, z3.Const("NoneType", Opaque), f(v.val.term)), tag="type")
    if isinstance(v, VObj):
        return VClass(v.cls)
    if isinstance(v, VExc):
        t = VClass(v.cls)
        t.exc = v
        return t
    if isinstance(v, VOpaque):
        f = z3.Function("type_of", Opaque, Opaque)
        return VOpaque(f(v.term), tag="type")
    raise Unsupported(f"type() of {v!r}")


def b_sum(ip, args, kwargs, node):
    tot = z3.IntVal(0)
    for x in ip.iterate(args[0]):
        if isinstance(x, VBool):
            tot = tot + z3.If(x.term, 1, 0)
        elif isinstance(x, VInt) and x.kind == "int":
            tot = tot + x.term
        else:
            raise Unsupported("sum of non-integers")
    return VInt(z3.simplify(tot))


def b_cast(ip, args, kwargs, node):
    return args[1]


def b_dict(ip, args, kwargs, node):
    d = {}
    if args and isinstance(args[0], (VOpaque, VStar)) or (args and args[0].kind == "iter"):
        # dict(<opaque iterable>): an opaque mapping (pure, cannot raise for zip()/items() views)
        return VOpaque(ip.st.fresh("dict", Opaque))
    if args and isinstance(args[0], VMap) and not kwargs:
        # dict(<symbolic map>): a copy with the same entries
        a = args[0]
        ref = ip.st.new_ref()
        ip.st.heap[(ref, "dom")] = ip.st.heap[(a.ref, "dom")]
        ip.st.heap[(ref, "val")] = ip.st.heap[(a.ref, "val")]
        return VMap(ref, a.key, a.val)
    if args:
        a = args[0]
        if isinstance(a, VDict):
            d.update(ip.st.heap[(a.ref, "items")])
        else:
            for it in ip.iterate(a):
                k, v = ip.unpack(it, 2)
                d[ip.concrete_key(k)] = v
    d.update(kwargs)
    return ip.new_dict(d)


def asyncio_queue(ip, args, kwargs, node):
    # asyncio.Queue(): an unbounded FIFO, empty when created (the bounded form is outside the subset)
    if args or kwargs:
        raise Unsupported("asyncio.Queue with a maxsize")
    return ip.new_list([])


def b_list(ip, args, kwargs, node):
    return ip.new_list(ip.iterate(args[0]) if args else [])


def b_tuple(ip, args, kwargs, node):
    if args and isinstance(args[0], VSet):
        # tuple(<symbolic set>): its elements in some order - kept as the identity image of the set
        import ast as _ast
        from .interp import Frame
        from .loops import VMapped
        return VMapped(args[0], "x", _ast.parse("x", mode="eval").body, Frame(None))
    if args and getattr(args[0], "kind", "") == "mapped":
        if args[0].conds:
            raise Unsupported("tuple() of a filtered generator over a symbolic set")
        return args[0]
    return VTuple(ip.iterate(args[0]) if args else [])


def b_zip(ip, args, kwargs, node):
    if len(args) == 2 and all(isinstance(a, VOpaque) for a in args):
        return VOpaque(z3.Function("zip_", Opaque, Opaque, Opaque)(args[0].term, args[1].term))
    if any(isinstance(a, VOpaque) or a.kind == "iter" for a in args):
        return VOpaque(ip.st.fresh("zip", Opaque))
    seqs = [ip.iterate(a) for a in args]
    return ip.new_list([VTuple(list(t)) for t in zip(*seqs)])


def b_any(ip, args, kwargs, node):
    return VBool(_b(_or([ip.truth(x) for x in ip.iterate(args[0])])))


def b_all(ip, args, kwargs, node):
    return VBool(_b(_and([ip.truth(x) for x in ip.iterate(args[0])])))


def b_partial(ip, args, kwargs, node):
    return VPartial(args[0], args[1:], kwargs)


def b_bytearray(ip, args, kwargs, node):
    ref = ip.st.new_ref()
    ip.st.heap[(ref, "content")] = args[0].term if args else z3.StringVal("")
    return VByteArray(ref)


def _shared_mutation(ip, ba, what):
    if ba.class_level and not ip.spec_mode:
        ip.check("ownership:no-class-level-mutable-state", z3.BoolVal(False),
                 where=f"{what} mutates an object created in the class body: it is shared by every instance (and connection)")


def ba_extend(ip, args, kwargs, node):
    ba, data = args
    _shared_mutation(ip, ba, "bytearray.extend")
    ip.st.heap[(ba.ref, "content")] = z3.Concat(ip.st.heap[(ba.ref, "content")], data.term)
    return VNone


def ba_clear(ip, args, kwargs, node):
    _shared_mutation(ip, args[0], "bytearray.clear")
    ip.st.heap[(args[0].ref, "content")] = z3.StringVal("")
    return VNone


def ba_decode(ip, args, kwargs, node):
    if not ip.spec_mode and ip.st.choose(2, "decode") == 1:
        raise_("UnicodeDecodeError")
    return VStr(ip.st.heap[(args[0].ref, "content")])


def b_frozenset(ip, args, kwargs, node):
    if not args:
        return VTuple([])
    if isinstance(args[0], VSet):
        ref = ip.st.new_ref()
        ip.st.heap[(ref, "set")] = ip.st.heap[(args[0].ref, "set")]
        return VSet(ref, args[0].elem)
    return VTuple(ip.iterate(args[0]))


# ------------------------------------------------------------------ datetime / timedelta
def ctor_timedelta(ip, args, kwargs, node):
    names = ["days", "seconds", "microseconds", "milliseconds", "minutes", "hours", "weeks"]
    mult = {"days": 86400 * US, "seconds": US, "microseconds": 1, "milliseconds": 1000, "minutes": 60 * US,
            "hours": 3600 * US, "weeks": 7 * 86400 * US}
    vals = dict(zip(names, args))
    vals.update(kwargs)
    total_int = z3.IntVal(0)
    total_real = None
    for k, v in vals.items():
        if k not in mult:
            raise_("TypeError", f"timedelta() got unexpected keyword {k}")
        v = ip.unopt(v)
        if isinstance(v, VInt) and v.kind == "int":
            total_int = total_int + v.term * mult[k]
        elif isinstance(v, VReal):
            total_real = (v.term * mult[k]) if total_real is None else total_real + v.term * mult[k]
        elif isinstance(v, VBool):
            total_int = total_int + z3.If(v.term, 1, 0) * mult[k]
        else:
            raise_("TypeError", f"unsupported type for timedelta {k} component")
    if total_real is not None:
        # CPython rounds the fractional microseconds half-to-even (exact for one float component)
        us = total_int + round_half_even(total_real)
    else:
        us = total_int
    return ip._td(z3.simplify(us))


def td_total_seconds(ip, args, kwargs, node):
    td = args[0]
    if getattr(ip.st, "float_model", "exact") == "ieee":
        return ip.lib["__td_total_seconds_ieee__"](ip, td)
    ip.st.assumed_used.add("timedelta.total_seconds(): float result treated as the exact rational microseconds/10^6")
    return VReal(z3.ToReal(td.term) / US)


def dt_now(ip, args, kwargs, node):
    tz = kwargs.get("tz", args[0] if args else VNone)
    if not isinstance(tz, VNoneT):
        if isinstance(tz, VOpt):
            if not ip.st.must(tz.isnone):
                raise Unsupported("datetime.now(tz=<aware>)")
        else:
            raise Unsupported("datetime.now(tz=<aware>)")
    return VInt(ip.st.read_clock_us(), "dt")


def dt_timestamp(ip, args, kwargs, node):
    d = args[0]
    ip.st.assumed_used.add("datetime.timestamp(): naive local time treated as UTC without DST jumps, exact rational")
    return VReal((z3.ToReal(d.term) - EPOCH_US) / US)


def dt_fromtimestamp(ip, args, kwargs, node):
    x = ip.unopt(args[0])
    r = to_real(x)
    ip.st.assumed_used.add("datetime.fromtimestamp(): local time treated as UTC, rounded half-even to microseconds")
    return ip._dt(round_half_even(r * US) + EPOCH_US)


def time_time(ip, args, kwargs, node):
    us = ip.st.read_clock_us()
    frac = ip.st.fresh("subus", z3.RealSort())
    ip.st.assume(z3.And(frac >= 0, frac < 1))
    ip.st.assumed_used.add("time.time() and datetime.now() read the same clock; float treated as exact real")
    return VReal((z3.ToReal(us) + frac - EPOCH_US) / US)


def time_time_ns(ip, args, kwargs, node):
    st = ip.st
    us = st.read_clock_us()
    ns = st.fresh("ns", z3.IntSort())
    st.assume(z3.And(ns >= (us - EPOCH_US) * 1000, ns < (us - EPOCH_US + 1) * 1000))
    last = getattr(st, "last_ns", None)
    if last is not None:
        st.assume(ns >= last)     # same monotone clock at nanosecond resolution
    st.last_ns = ns
    return VInt(ns)


# ------------------------------------------------------------------ list / dict methods (concrete-size containers)
def list_append(ip, args, kwargs, node):
    l, x = args
    ip.st.heap[(l.ref, "items")] = tuple(ip.items_of(l)) + (x,)
    return VNone


def list_extend(ip, args, kwargs, node):
    l, xs = args
    ip.st.heap[(l.ref, "items")] = tuple(ip.items_of(l)) + tuple(ip.iterate(xs))
    return VNone


def list_insert(ip, args, kwargs, node):
    l, i, x = args
    idx = ip.concrete_key(i)
    items = list(ip.items_of(l))
    items.insert(idx, x)
    ip.st.heap[(l.ref, "items")] = tuple(items)
    return VNone


def list_pop(ip, args, kwargs, node):
    l = args[0]
    items = list(ip.items_of(l))
    if not items:
        raise_("IndexError", "pop from empty list")
    idx = ip.concrete_key(args[1]) if len(args) > 1 else -1
    try:
        x = items.pop(idx)
    except IndexError:
        raise_("IndexError")
    ip.st.heap[(l.ref, "items")] = tuple(items)
    return x


def dict_get(ip, args, kwargs, node):
    d = ip.st.heap[(args[0].ref, "items")]
    k = ip.concrete_key(args[1])
    default = args[2] if len(args) > 2 else VNone
    return d.get(k, default)


def dict_pop(ip, args, kwargs, node):
    d = dict(ip.st.heap[(args[0].ref, "items")])
    k = ip.concrete_key(args[1])
    if k in d:
        v = d.pop(k)
        ip.st.heap[(args[0].ref, "items")] = d
        return v
    if len(args) > 2:
        return args[2]
    raise_("KeyError", repr(k))


def dict_items(ip, args, kwargs, node):
    d = ip.st.heap[(args[0].ref, "items")]
    return ip.new_list([VTuple([VStr(k) if isinstance(k, str) else VInt(k), v]) for k, v in d.items()])


def dict_keys(ip, args, kwargs, node):
    d = ip.st.heap[(args[0].ref, "items")]
    return ip.new_list([VStr(k) if isinstance(k, str) else VInt(k) for k in d])


def dict_values(ip, args, kwargs, node):
    d = ip.st.heap[(args[0].ref, "items")]
    return ip.new_list(list(d.values()))


def dict_update(ip, args, kwargs, node):
    d = dict(ip.st.heap[(args[0].ref, "items")])
    if len(args) > 1:
        o = args[1]
        if isinstance(o, VDict):
            d.update(ip.st.heap[(o.ref, "items")])
        else:
            for it in ip.iterate(o):
                k, v = ip.unpack(it, 2)
                d[ip.concrete_key(k)] = v
    d.update(kwargs)
    ip.st.heap[(args[0].ref, "items")] = d
    return VNone


def dict_copy(ip, args, kwargs, node):
    return ip.new_dict(ip.st.heap[(args[0].ref, "items")])


def dict_setdefault(ip, args, kwargs, node):
    d = dict(ip.st.heap[(args[0].ref, "items")])
    k = ip.concrete_key(args[1])
    if k not in d:
        d[k] = args[2] if len(args) > 2 else VNone
        ip.st.heap[(args[0].ref, "items")] = d
    return d[k]


# ------------------------------------------------------------------ str / bytes
def str_encode(ip, args, kwargs, node):
    # encode/decode are modelled as mutually inverse uninterpreted bijections restricted to what is needed:
    # bytes(s.encode()).decode() == s (utf-8 round trip of a str is the identity)
    return VBytes(args[0].term)


def bytes_decode(ip, args, kwargs, node):
    b = args[0]
    if isinstance(b, VBytes) and getattr(b, "arbitrary", False) and not ip.spec_mode:
        # arbitrary network bytes: decoding may fail
        if ip.st.choose(2, "decode") == 1:
            raise_("UnicodeDecodeError")
    return VStr(b.term)


def str_startswith(ip, args, kwargs, node):
    s, p = args[0], args[1]
    if getattr(p, "kind", "") == "mapped" and p.conds:
        raise Unsupported("startswith() over a filtered generator")
    if getattr(p, "kind", "") == "mapped":
        # s.startswith(tuple(f(x) for x in S)): some element of S whose image is a prefix of s
        x = z3.Const(ip.st.fresh_name("x"), sort_of_type(p.base.elem))
        img = p.image_of(ip, wrap(p.base.elem, x))
        full = z3.Exists([x], z3.And(z3.Select(ip.st.heap[(p.base.ref, "set")], x), z3.PrefixOf(img.term, s.term)))
        pred = getattr(p, "pred", None)
        if pred is None:
            return VBool(full)
        # a named predicate for "some image is a prefix of s" (a definitional extension): quantified clauses see only
        # the name; its definition is unfolded at every ground point where code or a clause evaluates it
        t = pred(s.term)
        if getattr(ip, "quant_depth", 0) == 0:
            ip.st.assume(t == full)
        return VBool(t)
    if isinstance(p, VTuple):
        return VBool(_b(_or([z3.PrefixOf(x.term, s.term) for x in p.items])))
    return VBool(z3.PrefixOf(p.term, s.term))


def str_find(ip, args, kwargs, node):
    s, sub = args[0], args[1]
    if len(args) == 2:
        return VInt(z3.IndexOf(s.term, sub.term, 0))
    start = args[2].term
    if len(args) == 3:
        return VInt(z3.IndexOf(s.term, sub.term, start))
    end = args[3].term
    # s.find(sub, start, end): search inside s[start:end] (start >= 0 here), index relative to s
    piece = z3.SubString(s.term, 0, z3.If(end < z3.Length(s.term), end, z3.Length(s.term)))
    return VInt(z3.IndexOf(piece, sub.term, start))


def str_split(ip, args, kwargs, node):
    h = ip.lib.get("__str_split__")
    if h is None:
        raise Unsupported("str.split not loaded")
    return h(ip, args, kwargs, node)


# ------------------------------------------------------------------ asyncio.wait_for
def asyncio_wait_for(ip, args, kwargs, node):
    """wait_for(aw, timeout): awaiting it awaits `aw`; additionally TimeoutError may be raised instead
    (assumption: when the timeout fires the inner awaitable had not completed an eager broker action)."""
    aw = args[0]

    def run(ip2, a, k, n):
        if ip2.st.choose(2, "wait_for-timeout") == 1:
            ip2.st.assumed_used.add("assumed contract: asyncio.wait_for (TimeoutError instead of the result; the "
                                    "cancelled awaitable left no completed eager action behind)")
            raise_("TimeoutError")
        return ip2.do_await(aw, n)
    return VCoro(VBuiltin("wait_for.run", run), [], {}, node)


class VPendingTask(V):
    """asyncio.ensure_future(<coroutine>) of a callee known by contract: the invocation is OPEN (ghost.open_invocations) until
    the task is awaited / waited to completion or cancelled"""
    kind = "ptask"

    def __init__(self, coro):
        self.coro = coro
        self.state = "pending"      # pending | done | raised | cancelled
        self.value = None
        self.exc = None


def _open(ip, delta):
    g = ip.st.ghost.get("open_invocations")
    if g is not None:
        ip.st.ghost["open_invocations"] = VInt(g.term + delta)


def asyncio_ensure_future(ip, args, kwargs, node):
    co = args[0]
    if not isinstance(co, VCoro):
        raise Unsupported(f"ensure_future of {co!r}")
    _open(ip, 1)
    return VPendingTask(co)


def _finish_task(ip, t, node):
    """the wrapped coroutine runs to its end now (by its contract): result or exception is kept in the task"""
    from .ops import PyRaise as _PR
    try:
        t.value = ip.do_await(t.coro, node)
        t.state = "done"
    except _PR as pr:
        if pr.exc.cls in ("CancelledError",):
            raise
        t.exc = pr.exc
        t.state = "raised"
    _open(ip, -1)


def asyncio_wait(ip, args, kwargs, node):
    """asyncio.wait(tasks, timeout=...): returns (done, pending) and does NOT cancel what is still pending"""
    try:
        tasks = list(ip.iterate(args[0]))
    except Unsupported:
        tasks = None
    if tasks is None or not tasks or not all(isinstance(t, VPendingTask) for t in tasks):
        return ip.call_function(VContractFn("asyncio.wait"), args, kwargs, node)      # the sidecar's contract (contracts/asyncio_.py)

    def run(ip2, a, k, n):
        done, pending = [], []
        for t in tasks:
            if t.state != "pending":
                done.append(t)
            elif kwargs.get("timeout") is not None and ip2.st.choose(2, "wait-timeout") == 1:
                pending.append(t)           # the timeout fired first: the invocation is still in progress
            else:
                _finish_task(ip2, t, n)
                done.append(t)
        return VTuple([VTuple(done), VTuple(pending)])
    return VCoro(VBuiltin("asyncio.wait.run", run), [], {}, node)


def ptask_result(ip, args, kwargs, node):
    t = args[0]
    if t.state == "done":
        return t.value
    if t.state == "raised":
        raise PyRaise(t.exc)
    if t.state == "cancelled":
        raise_("CancelledError")
    raise_("InvalidStateError")


def ptask_cancel(ip, args, kwargs, node):
    """task.cancel() on a pending task: the invocation ends (assumption shared with asyncio.wait_for: the actor
    does not swallow the cancellation)"""
    t = args[0]
    if t.state == "pending":
        t.state = "cancelled"
        _open(ip, -1)
        ip.st.assumed_used.add("assumed: a cancelled actor invocation ends (CancelledError is not swallowed by user code)")
        return VBool(True)
    return VBool(False)


def ptask_done(ip, args, kwargs, node):
    return VBool(args[0].state != "pending")


def asyncio_create_task(ip, args, kwargs, node):
    """create_task(coro): the coroutine starts running concurrently.  Its observable effect at spawn time is
    given by the sidecar contract `spawn:<Class.method>`; without one the engine stops."""
    co = args[0]
    if isinstance(co, VCoro) and isinstance(co.fn, VMethod):
        fi = co.fn.finfo
        short = f"{fi.cls.name if fi is not None and fi.cls is not None else co.fn.cls}.{co.fn.name}"
        sc = ip.db.lookup("spawn:" + short)
        if sc is None:
            raise Unsupported(f"create_task({short}(...)) needs a sidecar contract 'spawn:{short}'")
        if fi is not None and sc.params is None:
            am = ip.argmap_for(fi, sc, co.fn.obj, co.args, co.kwargs)
        else:
            am = ip.argmap_for(None, sc, co.fn.obj, co.args, co.kwargs)
        return ip.apply_contract(sc, am, node)
    if isinstance(co, VCoro) and isinstance(co.fn, VOpaque) and co.fn.tag:
        sc = ip.db.lookup("spawn:" + co.fn.tag)
        if sc is None:
            raise Unsupported(f"create_task(<{co.fn.tag}>(...)) needs a sidecar contract 'spawn:{co.fn.tag}'")
        return ip.apply_contract(sc, {"fn": co.fn}, node)
    raise Unsupported(f"create_task of {co!r}")


# ------------------------------------------------------------------ exceptions
def make_exc_ctor(name):
    def ctor(ip, args, kwargs, node):
        fields = dict(kwargs)
        return VExc(name, fields=fields, term=ip.st.fresh("exc", Opaque), msg=args[0] if args else None)
    return ctor


def setattr_on_function(ip, base, attr, v):
    """attribute stored on a function / wrapper object that is not an instance attribute of a heap object:
    a class-level object shared by every instance.  Recorded as a ghost event so that frame clauses can see it."""
    from .values import VMethod
    owner = f"{base.cls}.{base.name}" if isinstance(base, VMethod) else "function"
    scope = "class_level" if isinstance(base, VMethod) and base.obj is None or (isinstance(base, VMethod) and base.finfo is not None
                                                                               and "middleware_wrapper" in base.finfo.decorators) else "bound"
    ip.emit("shared_writes", VTuple([VStr(scope), VStr(owner), VStr(attr)]))
    return None


def build_lib() -> dict:
    lib: dict = {}
    lib["min"] = VBuiltin("min", _minmax(True))
    lib["max"] = VBuiltin("max", _minmax(False))
    for n, f in [("len", b_len), ("int", b_int), ("float", b_float), ("str", b_str), ("bool", b_bool),
                 ("isinstance", b_isinstance), ("getattr", b_getattr), ("hasattr", b_hasattr), ("setattr", b_setattr),
                 ("deepcopy", b_deepcopy), ("type", b_type), ("cast", b_cast), ("dict", b_dict), ("list", b_list),
                 ("tuple", b_tuple), ("zip", b_zip), ("any", b_any), ("all", b_all), ("partial", b_partial),
                 ("frozenset", b_frozenset), ("set", b_frozenset), ("sum", b_sum), ("bytearray", b_bytearray)]:
        lib[n] = VBuiltin(n, f)
    lib["Dict"] = VBuiltin("dict", b_dict)
    lib["issubclass"] = VBuiltin("issubclass", b_issubclass)
    lib["round"] = VBuiltin("round", b_round)
    lib["divmod"] = VBuiltin("divmod", b_divmod)
    lib["timedelta"] = VBuiltin("timedelta", ctor_timedelta)
    lib["datetime"] = VModule("datetime", {
        "now": VBuiltin("datetime.now", dt_now),
        "fromtimestamp": VBuiltin("datetime.fromtimestamp", dt_fromtimestamp),
    })
    lib["time"] = VModule("time", {"time": VBuiltin("time.time", time_time), "time_ns": VBuiltin("time.time_ns", time_time_ns)})
    lib["asyncio"] = VModule("asyncio", {n: VContractFn("asyncio." + n) for n in
                                         ("gather", "sleep", "wait", "get_running_loop")})
    lib["asyncio"].attrs["create_task"] = VBuiltin("asyncio.create_task", asyncio_create_task)
    lib["create_task"] = lib["asyncio"].attrs["create_task"]
    lib["asyncio"].attrs["Queue"] = VBuiltin("asyncio.Queue", asyncio_queue)
    for n in ("FIRST_COMPLETED", "ALL_COMPLETED", "FIRST_EXCEPTION"):
        lib["asyncio"].attrs[n] = VStr(n)
    lib["asyncio"].attrs["wait_for"] = VBuiltin("asyncio.wait_for", asyncio_wait_for)
    lib["asyncio"].attrs["ensure_future"] = VBuiltin("asyncio.ensure_future", asyncio_ensure_future)
    lib["asyncio"].attrs["wait"] = VBuiltin("asyncio.wait", asyncio_wait)
    for n in ("CancelledError", "TimeoutError", "QueueEmpty", "QueueFull"):
        lib["asyncio"].attrs[n] = VClass(n)
    basic = VModule("Basic", {"Ack": VClass("BasicAck"), "ConsumeOk": VClass("BasicConsumeOk"), "CancelOk": VClass("BasicCancelOk"),
                              "Properties": VClass("AmqpProperties")})
    lib["Basic"] = basic
    lib["aiormq"] = VModule("aiormq", {"spec": VModule("aiormq.spec", {"Basic": basic})})
    kinds = {"POSITIONAL_ONLY": 0, "POSITIONAL_OR_KEYWORD": 1, "VAR_POSITIONAL": 2, "KEYWORD_ONLY": 3, "VAR_KEYWORD": 4}
    param = VModule("inspect.Parameter", {k: VInt(v) for k, v in kinds.items()})
    param.attrs["empty"] = VOpaque(z3.Const("inspect.Parameter.empty", Opaque))
    lib["inspect"] = VModule("inspect", {"Parameter": param, "signature": VContractFn("inspect.signature")})
    lib["ceil"] = VBuiltin("math.ceil", b_ceil)
    lib["floor"] = VBuiltin("math.floor", b_floor)
    lib["math"] = VModule("math", {"ceil": lib["ceil"], "floor": lib["floor"]})
    lib["object"] = VModule("object", {"__setattr__": VBuiltin("object.__setattr__", b_object_setattr)})
    lib["True"] = VBool(True)
    lib["False"] = VBool(False)
    lib["None"] = VNone
    for e in EXC_PARENTS:
        lib[e] = VClass(e)
    lib["__ctors__"] = {e: make_exc_ctor(e) for e in EXC_PARENTS}
    lib["__methods__"] = {
        ("td", "total_seconds"): VBuiltin("timedelta.total_seconds", td_total_seconds),
        ("dt", "timestamp"): VBuiltin("datetime.timestamp", dt_timestamp),
        ("list", "append"): VBuiltin("list.append", list_append),
        ("list", "extend"): VBuiltin("list.extend", list_extend),
        ("list", "insert"): VBuiltin("list.insert", list_insert),
        ("list", "pop"): VBuiltin("list.pop", list_pop),
        ("dict", "get"): VBuiltin("dict.get", dict_get),
        ("dict", "pop"): VBuiltin("dict.pop", dict_pop),
        ("dict", "items"): VBuiltin("dict.items", dict_items),
        ("dict", "keys"): VBuiltin("dict.keys", dict_keys),
        ("dict", "values"): VBuiltin("dict.values", dict_values),
        ("dict", "update"): VBuiltin("dict.update", dict_update),
        ("dict", "copy"): VBuiltin("dict.copy", dict_copy),
        ("dict", "setdefault"): VBuiltin("dict.setdefault", dict_setdefault),
        ("str", "encode"): VBuiltin("str.encode", str_encode),
        ("bytearray", "extend"): VBuiltin("bytearray.extend", ba_extend),
        ("bytearray", "clear"): VBuiltin("bytearray.clear", ba_clear),
        ("bytearray", "decode"): VBuiltin("bytearray.decode", ba_decode),
        ("bytes", "decode"): VBuiltin("bytes.decode", bytes_decode),
        ("str", "startswith"): VBuiltin("str.startswith", str_startswith),
        ("str", "find"): VBuiltin("str.find", str_find),
        ("str", "split"): VBuiltin("str.split", str_split),
        ("str", "rstrip"): VBuiltin("str.rstrip", lambda ip, a, k, n: _strip(ip, a, k, n, False, True)),
        ("str", "lstrip"): VBuiltin("str.lstrip", lambda ip, a, k, n: _strip(ip, a, k, n, True, False)),
        ("str", "strip"): VBuiltin("str.strip", lambda ip, a, k, n: _strip(ip, a, k, n, True, True)),
        ("ptask", "result"): VBuiltin("Task.result", ptask_result),
        ("ptask", "cancel"): VBuiltin("Task.cancel", ptask_cancel),
        ("ptask", "done"): VBuiltin("Task.done", ptask_done),
    }
    lib["__attrs__"] = {
        ("opaque", "__name__"): lambda ip, b: VStr(z3.Function("name_of", Opaque, z3.StringSort())(b.term)),
        ("dt", "tzinfo"): lambda ip, b: VNone,   # naive datetimes only (precondition of every contract)
    }
    lib["__setattr_func__"] = setattr_on_function
    lib["__getitem__"] = {}
    lib["__setitem__"] = {}
    lib["__slice__"] = {}
    lib["__iter__"] = {}
    lib["__unpack__"] = {}
    lib["__len__"] = {}
    lib["__classattrs__"] = {}
    return lib


# ------------------------------------------------------------------ spec-only helpers
def s_dt_in_range(ip, args, kwargs, node):
    from .values import DT_MAX_US, DT_MIN_US
    v = args[0]
    if isinstance(v, VOpt):
        v = v.val
    return VBool(z3.And(v.term >= DT_MIN_US, v.term <= DT_MAX_US))


def s_td_in_range(ip, args, kwargs, node):
    v = args[0]
    if isinstance(v, VOpt):
        v = v.val
    return VBool(z3.And(v.term >= -TD_MAX_DAYS_US, v.term <= TD_MAX_DAYS_US + 86400 * US - 1))


def s_us(ip, args, kwargs, node):
    """microseconds of a timedelta / datetime as an int (spec only)"""
    v = args[0]
    if isinstance(v, VOpt):
        v = v.val
    return VInt(v.term)


def s_without(ip, args, kwargs, node):
    """spec: the set s without element x (a new set value)"""
    s, x = args
    ref = ip.st.new_ref()
    ip.st.heap[(ref, "set")] = z3.Store(ip.st.heap[(s.ref, "set")], term_of(x), z3.BoolVal(False))
    return VSet(ref, s.elem)


def s_with(ip, args, kwargs, node):
    s, x = args
    ref = ip.st.new_ref()
    ip.st.heap[(ref, "set")] = z3.Store(ip.st.heap[(s.ref, "set")], term_of(x), z3.BoolVal(True))
    return VSet(ref, s.elem)


def s_appended(ip, args, kwargs, node):
    """spec: the sequence s with x appended (a new sequence value)"""
    s, x = args
    ref = ip.st.new_ref()
    cur = ip.st.heap[(s.ref, "seq")]
    new = z3.Concat(cur, z3.Unit(term_of(x)))
    c = getattr(ip, "current_contract", None)
    if c is not None and getattr(c, "seq_lemmas", False) and getattr(ip, "quant_depth", 0) == 0:
        from .loops import named_append
        new = named_append(ip.st, cur, term_of(x), new)
    ip.st.heap[(ref, "seq")] = new
    return VSeq(ref, s.elem)


def s_at(ip, args, kwargs, node):
    """spec: at(s, i) - the i-th element of a sequence for 0 <= i < len(s), WITHOUT Python's negative-index wrap-around
    (quantified clauses guard the index themselves; the wrap-around ite inside a quantifier defeats the solvers)"""
    s, i = args
    if isinstance(s, (VList, VTuple)):
        items = list(ip.items_of(s))
        it = z3.simplify(i.term)
        if z3.is_int_value(it) and 0 <= it.as_long() < len(items):
            return items[it.as_long()]
        if not items:
            return VOpaque(ip.st.fresh("no_element", Opaque))      # at([], j): no such element (the clause guards the index)
        out = items[-1]
        for k in range(len(items) - 2, -1, -1):
            out = ip.ite(i.term == k, items[k], out)
        return out
    x = ip.st.heap[(s.ref, "seq")][i.term]
    return wrap(s.elem, x) if s.elem[0] not in ("obj", "symobj") else VObj(s.elem[1], x)


def s_nonempty(ip, args, kwargs, node):
    return VBool(_b(ip.truth(args[0])))


def s_contains(ip, args, kwargs, node):
    return VBool(_b(ip.contains(args[0], args[1])))


def s_last_now(ip, args, kwargs, node):
    """spec: the most recent wall-clock reading made by the function (datetime)"""
    if not ip.st.clock_terms:
        return VInt(ip.st.read_clock_us(), "dt")
    return VInt(ip.st.clock_terms[-1], "dt")


def s_is_insert_partial(ip, args, kwargs, node):
    """spec: x is functools.partial(<lst>.insert, <pos>, <item>) for the very list object lst"""
    x, lst = args
    ok = (isinstance(x, VPartial) and isinstance(x.fn, VPartial) and isinstance(x.fn.fn, VBuiltin)
          and x.fn.fn.name == "list.insert" and x.fn.args and isinstance(x.fn.args[0], VSeq)
          and isinstance(lst, VSeq) and x.fn.args[0].ref == lst.ref and len(x.args) == 2 and not x.kwargs)
    return VBool(bool(ok))


def s_partial_arg(ip, args, kwargs, node):
    x, i = args
    return x.args[ip.concrete_key(i)]


def s_is_noop_callable(ip, args, kwargs, node):
    x = args[0]
    import ast as _ast
    ok = isinstance(x, VLambda) and isinstance(x.node.body, _ast.Constant) and x.node.body.value is None \
        and not x.node.args.args
    return VBool(bool(ok))


def s_seq_of(ip, args, kwargs, node):
    """spec: the one-element sequence [x] (element type: opaque callables)"""
    from .loops import coerce
    ref = ip.st.new_ref()
    et = ("func", "Callback")
    ip.st.heap[(ref, "seq")] = z3.Unit(coerce(ip, args[0], ("opaque",)))
    return VSeq(ref, et)


def s_map_with_if(ip, args, kwargs, node):
    """spec: the map m with m[k] = v added when cond holds (a new map value)"""
    from .loops import coerce
    m, cond, k, v = args
    c = _b(ip.truth(cond))
    ref = ip.st.new_ref()
    kt = term_of(k)
    ip.st.heap[(ref, "dom")] = z3.If(c, z3.Store(ip.st.heap[(m.ref, "dom")], kt, z3.BoolVal(True)), ip.st.heap[(m.ref, "dom")])
    ip.st.heap[(ref, "val")] = z3.If(c, z3.Store(ip.st.heap[(m.ref, "val")], kt, coerce(ip, v, m.val)), ip.st.heap[(m.ref, "val")])
    return VMap(ref, m.key, m.val)


def s_empty_map(ip, args, kwargs, node):
    kt = ip.tenv.parse(args[0].concrete())
    vt = ip.tenv.parse(args[1].concrete())
    ref = ip.st.new_ref()
    ip.st.heap[(ref, "dom")] = z3.K(sort_of_type(kt), z3.BoolVal(False))
    ip.st.heap[(ref, "val")] = z3.K(sort_of_type(kt), z3.IntVal(0) if vt == ("int",) else z3.Const("dflt", sort_of_type(vt)))
    return VMap(ref, kt, vt)


def s_same_arr(ip, args, kwargs, node):
    a, b = args
    return VBool(z3.And(ip.st.heap[(a.ref, "len")] == ip.st.heap[(b.ref, "len")], ip.st.heap[(a.ref, "arr")] == ip.st.heap[(b.ref, "arr")]))


def b_issubclass(ip, args, kwargs, node):
    """issubclass(<opaque type object>, Class): an uninterpreted predicate of the type object"""
    x, c = args
    if isinstance(x, VOpaque) and isinstance(c, VClass):
        return VBool(z3.Function("issubclass_" + c.name, Opaque, z3.BoolSort())(x.term))
    raise Unsupported(f"issubclass({x!r}, {c!r})")


def s_okeys(ip, args, kwargs, node):
    """spec: the keys of a dict in insertion order, as a sequence (ordered symbolic map, or a concrete dict)"""
    m = args[0]
    ref = ip.st.new_ref()
    if isinstance(m, VMap) and getattr(m, "ordered", False):
        ip.st.heap[(ref, "seq")] = ip.st.heap[(m.ref, "keys")]
        return VSeq(ref, m.key)
    if isinstance(m, VDict):
        items = list(ip.st.heap[(m.ref, "items")])
        if not all(isinstance(k, str) for k in items):
            raise Unsupported("okeys of a dict with non-string keys")
        sq = z3.Empty(z3.SeqSort(z3.StringSort()))
        for k in items:
            sq = z3.Concat(sq, z3.Unit(z3.StringVal(k)))
        ip.st.heap[(ref, "seq")] = sq
        return VSeq(ref, ("str",))
    raise Unsupported(f"okeys({m!r})")


SPEC_LIB = {"okeys": VBuiltin("okeys", s_okeys), "same_arr": VBuiltin("same_arr", s_same_arr), "map_with_if": VBuiltin("map_with_if", s_map_with_if), "empty_map": VBuiltin("empty_map", s_empty_map), "seq_of": VBuiltin("seq_of", s_seq_of), "is_insert_partial": VBuiltin("is_insert_partial", s_is_insert_partial),
            "partial_arg": VBuiltin("partial_arg", s_partial_arg),
            "is_noop_callable": VBuiltin("is_noop_callable", s_is_noop_callable), "last_now": VBuiltin("last_now", s_last_now), "contains": VBuiltin("contains", s_contains), "nonempty": VBuiltin("nonempty", s_nonempty), "nonempty_map": VBuiltin("nonempty_map", s_nonempty), "without": VBuiltin("without", s_without), "with_": VBuiltin("with_", s_with),
            "appended": VBuiltin("appended", s_appended), "at": VBuiltin("at", s_at), "dt_in_range": VBuiltin("dt_in_range", s_dt_in_range), "td_in_range": VBuiltin("td_in_range", s_td_in_range),
            "us": VBuiltin("us", s_us)}
_orig_build = build_lib


def build_lib():  # noqa: F811
    lib = _orig_build()
    lib.update(SPEC_LIB)
    from . import jsonmodel, loops, redis_model, strings
    loops.install(lib)
    strings.install(lib)
    jsonmodel.install(lib)
    redis_model.install(lib)
    return lib
