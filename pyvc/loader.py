"""Loads the real source from the repository working tree with `ast`.

Nothing is imported or executed from /repo here; every run re-reads the files, so the
verified text is the text on disk.  What the extraction drops is listed in DESIGN.md 2.1.
"""
from __future__ import annotations

import ast
import hashlib
import os
from dataclasses import dataclass, field


class Unsupported(Exception):
    """Construct outside the supported subset / sidecar out of date -> exit 2 (undecided)."""


@dataclass
class FuncInfo:
    qualname: str            # e.g. "Parameters._prepare_retry" or "default_retry_policy_factory.<locals>.inner"
    path: str                # repo-relative file
    node: ast.AST            # FunctionDef / AsyncFunctionDef
    cls: "ClassInfo | None"  # lexically enclosing class (for name mangling / super())
    module: "ModuleInfo"
    decorators: list[str]
    source: str

    @property
    def is_async(self) -> bool:
        return isinstance(self.node, ast.AsyncFunctionDef)

    @property
    def sha(self) -> str:
        return hashlib.sha256(self.source.encode()).hexdigest()[:16]

    @property
    def key(self) -> str:
        return f"{self.path}::{self.qualname}"


@dataclass
class ClassInfo:
    name: str                # unique name used throughout the engine (== pyname unless another module defines the same name)
    path: str
    node: ast.ClassDef
    module: "ModuleInfo"
    bases: list[str]
    is_dataclass: bool
    fields: list[tuple[str, ast.expr | None, ast.expr | None]] = field(default_factory=list)  # (name, annotation, default)
    slots: list[str] = field(default_factory=list)
    methods: dict[str, FuncInfo] = field(default_factory=dict)
    class_attrs: dict[str, ast.expr] = field(default_factory=dict)
    enum_members: list[tuple[str, ast.expr]] = field(default_factory=list)
    pyname: str = ""

    @property
    def is_enum(self) -> bool:
        return any(b in ("Enum", "IntEnum") for b in self.bases)


@dataclass
class ModuleInfo:
    path: str
    tree: ast.Module
    text: str
    functions: dict[str, FuncInfo] = field(default_factory=dict)
    classes: dict[str, ClassInfo] = field(default_factory=dict)
    globals: dict[str, ast.expr] = field(default_factory=dict)
    imports: dict[str, tuple] = field(default_factory=dict)   # local name -> (module dotted name, original name)


def _decorator_names(node) -> list[str]:
    out = []
    for d in node.decorator_list:
        if isinstance(d, ast.Call):
            d = d.func
        out.append(ast.unparse(d))
    return out


class Repo:
    def __init__(self, root: str):
        self.root = root
        self.modules: dict[str, ModuleInfo] = {}
        self.classes: dict[str, ClassInfo] = {}     # by simple class name (unique in repid for those we use)
        self._class_dups: dict[str, list[ClassInfo]] = {}

    # ------------------------------------------------------------------ loading
    def module(self, relpath: str) -> ModuleInfo:
        if relpath in self.modules:
            return self.modules[relpath]
        full = os.path.join(self.root, relpath)
        try:
            with open(full, encoding="utf-8") as fh:
                text = fh.read()
        except OSError as exc:
            raise Unsupported(f"cannot read {relpath}: {exc}") from exc
        try:
            tree = ast.parse(text, filename=full)
        except SyntaxError as exc:
            raise Unsupported(f"cannot parse {relpath}: {exc}") from exc
        mod = ModuleInfo(relpath, tree, text)
        self.modules[relpath] = mod
        self._scan(mod, tree.body, prefix="", cls=None)
        return mod

    def _scan(self, mod: ModuleInfo, body, prefix: str, cls: ClassInfo | None):
        for node in body:
            if isinstance(node, (ast.FunctionDef, ast.AsyncFunctionDef)):
                qn = prefix + node.name
                decs = _decorator_names(node)
                if any(d.endswith(".setter") for d in decs):
                    qn += ".setter"
                fi = FuncInfo(qn, mod.path, node, cls, mod, decs,
                              ast.get_source_segment(mod.text, node) or "")
                # overloads: the last definition wins (as at run time)
                mod.functions[qn] = fi
                if cls is not None and prefix == cls.name + ".":
                    if "overload" not in fi.decorators:
                        # property setter: keep getter under name, setter under name.setter
                        if any(d.endswith(".setter") for d in fi.decorators):
                            cls.methods[node.name + ".setter"] = fi
                        else:
                            cls.methods[node.name] = fi
                self._scan(mod, node.body, qn + ".<locals>.", cls)
            elif isinstance(node, ast.ClassDef):
                decs = _decorator_names(node)
                ci = ClassInfo(
                    name=node.name, path=mod.path, node=node, module=mod,
                    bases=[ast.unparse(b).split(".")[-1].split("[")[0] for b in node.bases],
                    is_dataclass=any(d.split(".")[-1] == "dataclass" for d in decs),
                )
                for st in node.body:
                    if isinstance(st, ast.AnnAssign) and isinstance(st.target, ast.Name):
                        ann = ast.unparse(st.annotation)
                        if ann.startswith("ClassVar"):
                            if st.value is not None:
                                ci.class_attrs[st.target.id] = st.value
                        else:
                            ci.fields.append((st.target.id, st.annotation, st.value))
                            if st.value is not None:
                                ci.class_attrs[st.target.id] = st.value
                    elif isinstance(st, ast.Assign) and len(st.targets) == 1 and isinstance(st.targets[0], ast.Name):
                        nm = st.targets[0].id
                        if nm == "__slots__":
                            try:
                                ci.slots = list(ast.literal_eval(st.value))
                            except Exception:
                                pass
                        else:
                            ci.class_attrs[nm] = st.value
                            ci.enum_members.append((nm, st.value))
                ci.pyname = node.name
                mod.classes[node.name] = ci
                self._class_dups.setdefault(node.name, []).append(ci)
                if node.name in self.classes and self.classes[node.name] is not ci:
                    ci.name = f"{node.name}@{mod.path[:-3].replace('/', '.')}"
                self.classes.setdefault(ci.name, ci)
                self._scan(mod, node.body, prefix + node.name + ".", ci)
            elif isinstance(node, ast.ImportFrom) and cls is None and prefix == "":
                base = node.module or ""
                if node.level:
                    pkg = mod.path[:-3].replace("/", ".").split(".")
                    pkg = pkg[:len(pkg) - node.level]
                    base = ".".join(pkg + ([node.module] if node.module else []))
                for a in node.names:
                    mod.imports[a.asname or a.name] = (base, a.name)
            elif isinstance(node, ast.Assign) and len(node.targets) == 1 and isinstance(node.targets[0], ast.Name):
                mod.globals[node.targets[0].id] = node.value
            elif isinstance(node, ast.AnnAssign) and isinstance(node.target, ast.Name) and node.value is not None:
                mod.globals[node.target.id] = node.value
            elif isinstance(node, ast.If):
                # `if TYPE_CHECKING:` blocks are dropped; other module-level ifs are scanned
                test = ast.unparse(node.test)
                if test != "TYPE_CHECKING":
                    self._scan(mod, node.body, prefix, cls)
                    self._scan(mod, node.orelse, prefix, cls)

    def load_all(self, pkg: str = "repid"):
        base = os.path.join(self.root, pkg)
        for dp, _dn, fns in sorted(os.walk(base)):
            for fn in sorted(fns):
                if fn.endswith(".py"):
                    self.module(os.path.relpath(os.path.join(dp, fn), self.root))

    # ------------------------------------------------------------------ lookup
    def func(self, key: str) -> FuncInfo:
        """key = 'repid/x.py::Qual.name'"""
        path, qn = key.split("::")
        mod = self.module(path)
        if qn not in mod.functions:
            raise Unsupported(f"sidecar out of date: function {key} not found in the tree")
        return mod.functions[qn]

    def resolve_import(self, mod: ModuleInfo, name: str, depth=0):
        """follow `from X import name` to the defining repository module: ('class', ClassInfo) / ('func', FuncInfo)"""
        if name not in mod.imports or depth > 4:
            return None
        base, orig = mod.imports[name]
        for cand in (base.replace(".", "/") + ".py", base.replace(".", "/") + "/__init__.py"):
            if os.path.exists(os.path.join(self.root, cand)):
                m2 = self.module(cand)
                if orig in m2.classes:
                    return ("class", m2.classes[orig])
                if orig in m2.functions:
                    return ("func", m2.functions[orig])
                r = self.resolve_import(m2, orig, depth + 1)
                if r is not None:
                    return r
        sub = base.replace(".", "/") + "/" + orig + ".py"
        if os.path.exists(os.path.join(self.root, sub)):
            return ("module", self.module(sub))
        return None

    def cls(self, name: str, path: str | None = None) -> ClassInfo | None:
        if path is not None:
            return self.module(path).classes.get(name)
        return self.classes.get(name)

    def mro(self, ci: ClassInfo) -> list[ClassInfo]:
        out = [ci]
        for b in ci.bases:
            # prefer a class of that name in the same module, else global registry
            bi = ci.module.classes.get(b) or self.classes.get(b)
            if bi is not None and bi is not ci:
                for x in self.mro(bi):
                    if x not in out:
                        out.append(x)
        return out

    def find_method(self, ci: ClassInfo, name: str, after: ClassInfo | None = None) -> FuncInfo | None:
        mro = self.mro(ci)
        if after is not None and after in mro:
            mro = mro[mro.index(after) + 1:]
        for c in mro:
            if name in c.methods:
                return c.methods[name]
        return None

    def find_class_attr(self, ci: ClassInfo, name: str):
        for c in self.mro(ci):
            if name in c.class_attrs:
                return c, c.class_attrs[name]
        return None

    def all_fields(self, ci: ClassInfo):
        """dataclass fields in MRO order (base first)."""
        out: list[tuple[str, ast.expr | None, ast.expr | None]] = []
        seen = set()
        for c in reversed(self.mro(ci)):
            for f in c.fields:
                if f[0] not in seen:
                    seen.add(f[0])
                    out.append(f)
        return out
