"""Per-path state and the path explorer (depth-first, by re-execution from the start).

A *path* is one run of the symbolic interpreter under a list of decisions.  When the run reaches a
branch beyond its prefix and both sides are feasible, it takes the first side and registers the
other as a new prefix.  No state is ever copied: every path starts from scratch, so the interpreter
may use ordinary mutable Python structures.
"""
from __future__ import annotations

import time

import z3

from .values import (DT_MAX_US, DT_MIN_US, V, VInt, VReal)


class PathInfeasible(Exception):
    pass


class Undecided(Exception):
    """solver gave up on something that is needed to go on"""


class Obligation:
    __slots__ = ("name", "status", "detail", "model", "solver", "time", "path", "smt2", "where", "inputs")

    def __init__(self, name, status, detail="", model=None, solver="z3", t=0.0, path=None, smt2=None, where=""):
        self.name = name          # e.g. "ensures:grid"
        self.status = status      # 'discharged' | 'failed' | 'undecided'
        self.detail = detail
        self.model = model        # dict name->python value (for failed)
        self.solver = solver
        self.time = t
        self.path = path
        self.smt2 = smt2
        self.where = where
        self.inputs = None


FEAS_TIMEOUT_MS = 5000
STR_FEAS_TIMEOUT_MS = 400
QUANT_FEAS_TIMEOUT_MS = 1000


def _has_quant(t, depth=0) -> bool:
    try:
        if z3.is_quantifier(t):
            return True
    except Exception:  # noqa: BLE001
        return False
    if depth > 4 or not z3.is_expr(t):
        return False
    return any(_has_quant(c, depth + 1) for c in t.children())


def _has_strings(t, depth=0) -> bool:
    try:
        if z3.is_string(t) or z3.is_seq(t):
            return True
    except Exception:  # noqa: BLE001
        return False
    if depth > 6 or not z3.is_expr(t):
        return False
    return any(_has_strings(c, depth + 1) for c in t.children())

OBL_TIMEOUT_MS = 20000


class Heap(dict):
    """(ref, field) -> content.  A ref of the form ('mv', mapref, key_term) denotes the collection stored as the
    value of a symbolic map at that key: reads select from / writes store into the map's value array."""

    def _mv(self, key):
        return isinstance(key, tuple) and len(key) == 2 and isinstance(key[0], tuple) and key[0] and key[0][0] == "mv"

    def __getitem__(self, key):
        if self._mv(key):
            _, mapref, kterm = key[0]
            return z3.Select(dict.__getitem__(self, (mapref, "val")), kterm)
        return dict.__getitem__(self, key)

    def __setitem__(self, key, value):
        if self._mv(key):
            _, mapref, kterm = key[0]
            dict.__setitem__(self, (mapref, "val"), z3.Store(dict.__getitem__(self, (mapref, "val")), kterm, value))
            return
        dict.__setitem__(self, key, value)

    def __contains__(self, key):
        if self._mv(key):
            return dict.__contains__(self, (key[0][1], "val"))
        return dict.__contains__(self, key)

    def get(self, key, default=None):
        return self[key] if key in self else default

    def copy(self):
        return Heap(self)


class State:
    def __init__(self, prefix, explorer):
        self.prefix = list(prefix)
        self.taken: list[int] = []
        self.explorer = explorer
        self.pc: list = []
        self.tainted = False
        self.last_check = None
        self.renewals = 0
        self.solver = None
        self.renew_solver()
        self.heap: Heap = Heap()
        self.next_ref = 1
        self.ghost: dict[str, object] = {}
        self.counter = 0
        self.clock_terms: list = []     # successive wall-clock readings, as Real seconds*1e6 (microseconds, real)
        self.clock_names: dict[str, V] = {}
        self.obligations: list[Obligation] = []
        self.assumed_used: set[str] = set()
        self.notes: list[str] = []
        self.pow2_args: list = []
        self.input_terms: dict[str, object] = {}   # name -> z3 term (for model extraction)
        self.trace_base = 0
        self.solver_time = 0.0
        self.uses_strings = False
        self.has_quant = False
        self.unknown_streak = 0
        self.skipped = 0
        self.events: list[str] = []

    def renew_solver(self):
        """a new solver over the same path condition.  An incremental z3 solver that has hit a timeout was seen to answer
        a spurious `unsat` afterwards (the same assertions are `sat` for fresh z3 5.1, z3 4.8 and cvc5 - DESIGN.md 15),
        so a solver that has returned `unknown` once is never asked again."""
        self.solver = z3.Solver()
        self.solver.set("timeout", FEAS_TIMEOUT_MS)
        self.solver.set("random_seed", 0)
        for t in self.pc:
            self.solver.add(t)
        self.tainted = False
        self.renewals += 1

    # -------------------------------------------------------------- names / refs
    def fresh_name(self, base: str) -> str:
        self.counter += 1
        return f"{base}!{self.counter}"

    def fresh(self, base: str, sort):
        return z3.Const(self.fresh_name(base), sort)

    def new_ref(self) -> int:
        r = self.next_ref
        self.next_ref += 1
        return r

    # -------------------------------------------------------------- assumptions / branching
    def assume(self, term):
        if isinstance(term, bool):
            term = z3.BoolVal(term)
        term = z3.simplify(term)
        if z3.is_true(term):
            return
        self.pc.append(term)
        if not self.has_quant and _has_quant(term):
            self.has_quant = True
        self.solver.add(term)
        if z3.is_false(term):
            raise PathInfeasible()

    def _check(self, extra) -> str:
        t0 = time.time()
        # string constraints: feasibility is only an optimisation (unknown = feasible), keep it cheap
        budget = FEAS_TIMEOUT_MS
        if self.uses_strings or _has_strings(extra):
            self.uses_strings = True
            budget = STR_FEAS_TIMEOUT_MS
        elif self.has_quant:
            # quantified path condition (havoc under a rely, loop invariants): feasibility is only an optimisation
            budget = QUANT_FEAS_TIMEOUT_MS
        if self.has_quant and self.unknown_streak >= 2:
            # the solver keeps giving up on feasibility questions in this quantified state: stop asking (every path is
            # kept - an over-approximation), try again only now and then
            self.skipped += 1
            if self.skipped % 8:
                return "unknown"
        if self.tainted:
            self.renew_solver()
        self.solver.push()
        self.solver.add(extra)
        self.solver.set("timeout", budget)
        t1 = time.time()
        r = self.solver.check()
        self.last_check = (str(r), round(time.time() - t1, 3), budget)
        if r == z3.unsat and (self.has_quant or _has_quant(extra)):
            from .smt import confirm_unsat
            if confirm_unsat(self.solver, None, max(budget, 2000)) != "unsat":
                r = z3.unknown
        if r == z3.unknown:
            self.tainted = True
        self.unknown_streak = self.unknown_streak + 1 if r == z3.unknown else 0
        if r == z3.unsat:
            from .smt import second_opinion, SolverDisagreement
            try:
                second_opinion(self.solver, "path feasibility")
            except SolverDisagreement:
                self.solver.pop()
                raise
        self.solver.pop()
        self.solver.set("timeout", FEAS_TIMEOUT_MS)
        self.solver_time += time.time() - t0
        return str(r)

    def was_feasible_before(self, n_pc: int) -> str:
        """'sat' | 'unsat' | 'unknown' for the first n_pc conjuncts of the path condition, on a fresh solver with a
        generous budget.  Used when assumptions just added made the path unsatisfiable: if the path was ALREADY
        infeasible (a quick feasibility check had timed out earlier) the new assumptions are not to blame."""
        s = z3.Solver()
        s.set("timeout", 20000)
        for t in self.pc[:n_pc]:
            s.add(t)
        return str(s.check())

    def feasible(self, term) -> bool:
        r = self._check(term)
        return r != "unsat"  # unknown counts as feasible (over-approximation of paths is sound)

    def branch(self, cond) -> bool:
        """fork on a boolean z3 term; returns the side taken on this path"""
        if isinstance(cond, bool):
            return cond
        cond = z3.simplify(cond)
        if z3.is_true(cond):
            return True
        if z3.is_false(cond):
            return False
        i = len(self.taken)
        if i < len(self.prefix):
            side = self.prefix[i]
            self.taken.append(side)
            self.assume(cond if side == 0 else z3.Not(cond))
            return side == 0
        can_t = self.feasible(cond)
        can_f = self.feasible(z3.Not(cond))
        if can_t and can_f:
            self.explorer.push(self.taken + [1])
            self.taken.append(0)
            self.assume(cond)
            return True
        if can_t:
            self.taken.append(0)
            self.assume(cond)
            return True
        if can_f:
            self.taken.append(1)
            self.assume(z3.Not(cond))
            return False
        raise PathInfeasible()

    def choose(self, n: int, label: str = "") -> int:
        """non-deterministic choice among n alternatives (no solver involved)"""
        if n <= 1:
            return 0
        i = len(self.taken)
        if i < len(self.prefix):
            side = self.prefix[i]
            self.taken.append(side)
            return side
        for j in range(n - 1, 0, -1):
            self.explorer.push(self.taken + [j])
        self.taken.append(0)
        return 0

    def must(self, term) -> bool:
        """is term implied by the path condition? (unknown -> False)"""
        term = z3.simplify(term)
        if z3.is_true(term):
            return True
        return self._check(z3.Not(term)) == "unsat"

    # -------------------------------------------------------------- clock
    def read_clock_us(self):
        """one reading of the wall clock, an Int of microseconds since datetime.min; successive
        readings are non-decreasing (assumption: monotone wall clock, DESIGN.md 3)"""
        t = self.fresh("now", z3.IntSort())
        self.assume(z3.And(t >= DT_MIN_US, t <= DT_MAX_US))
        if self.clock_terms:
            self.assume(t >= self.clock_terms[-1])
        self.input_terms[f"clock[{len(self.clock_terms)}]"] = t
        self.clock_terms.append(t)
        self.assumed_used.add("wall clock: successive readings inside one function are non-decreasing")
        return t

    # -------------------------------------------------------------- snapshots
    def snapshot(self):
        return (Heap(self.heap), dict(self.ghost))


class Explorer:
    def __init__(self, max_paths=4000, start=None, budget=None):
        self.work: list[list[int]] = [list(start or [])]
        self.max_paths = max_paths
        self.budget = budget          # stop after this many paths; the rest of the worklist is handed back (pending)
        self.pending: list[list[int]] = []
        self.paths_run = 0
        self.infeasible = 0

    def push(self, prefix):
        self.work.append(list(prefix))

    def run(self, body):
        """body(State) executes one path"""
        results = []
        while self.work:
            if self.budget is not None and self.paths_run + self.infeasible >= self.budget:
                self.pending = self.work
                self.work = []
                break
            prefix = self.work.pop()
            if self.paths_run >= self.max_paths:
                raise Undecided(f"more than {self.max_paths} paths")
            st = State(prefix, self)
            try:
                res = body(st)
                self.paths_run += 1
                results.append((st, res))
            except PathInfeasible:
                self.infeasible += 1
        return results
