"""Lemmas: facts over spec functions proved directly by the solver (no code involved), and the
inductive lemmas about pow2 whose ground instances the engine uses (DESIGN.md 2.6)."""
from __future__ import annotations

import time

import z3

from .contracts import ContractInterp
from .lib import build_lib
from .smt import check_with_fallback, model_to_dict
from .state import Explorer, PathInfeasible
from .tys import mk_sym


def _pow2_lemma(kind):
    f = z3.Function("pow2", z3.IntSort(), z3.IntSort())
    n, a = z3.Ints("n a")
    obs = []
    if kind == "pow2_pos":
        # P(n): pow2(n) >= 1   definition: pow2(0)=1, pow2(n+1)=2*pow2(n) for n>=0
        obs.append(("base", z3.Implies(f(0) == 1, f(0) >= 1)))
        obs.append(("step", z3.Implies(z3.And(n >= 0, f(n) >= 1, f(n + 1) == 2 * f(n)), f(n + 1) >= 1)))
    elif kind == "pow2_mono":
        # for fixed a >= 0, P(b): a <= b -> pow2(a) <= pow2(b); induction on b from a
        obs.append(("base", f(a) <= f(a)))
        obs.append(("step", z3.Implies(z3.And(a >= 0, n >= a, f(a) <= f(n), f(n) >= 1, f(n + 1) == 2 * f(n)),
                                       f(a) <= f(n + 1))))
    out = {}
    for nm, goal in obs:
        s = z3.Solver()
        t0 = time.time()
        res, model, solver, smt2 = check_with_fallback(s, z3.Not(goal))
        out[f"lemma:{kind}.{nm}"] = {"status": {"unsat": "discharged", "sat": "failed"}.get(res, "undecided"),
                                     "solvers": [solver], "time": round(time.time() - t0, 4), "paths": 1,
                                     "where": "induction " + nm, "failures": []}
    return out


def prove_lemma(repo, db, idx):
    lem = db.lemmas[idx]
    t0 = time.time()
    name = lem["name"]
    if lem.get("builtin"):
        obs = _pow2_lemma(lem["builtin"])
        return {"fn": f"lemma::{name}", "error": None, "crash": None, "obligations": obs, "paths": 1, "reachable": 1,
                "queries": len(obs), "assumed": ["induction principle over the naturals (meta-level)"],
                "wall": round(time.time() - t0, 3), "solver_time": 0.0, "sha": None, "notes": [], "exits": {}}
    obs = {}
    error = None
    assumed = set()
    reach = [0]

    def body(st):
        ip = ContractInterp(repo, db, st, build_lib())
        env = {v: mk_sym(st, ip.tenv, t, v) for v, t in lem["vars"].items()}
        for r in lem.get("requires", []):
            st.assume(ip.spec_bool(r, env))
        if str(st.solver.check()) == "unsat":
            raise PathInfeasible()
        reach[0] += 1
        goal = ip.spec_bool(lem["ensures"], env)
        ip.check(f"lemma:{name}", goal, where=lem["ensures"])
        assumed.update(st.assumed_used)
        return st.obligations

    try:
        ex = Explorer()
        res = ex.run(body)
        for st, obl in res:
            for ob in obl:
                e = obs.setdefault(ob.name, {"status": "discharged", "solvers": [], "time": 0.0, "paths": 0,
                                             "where": ob.where, "failures": []})
                e["paths"] += 1
                e["time"] = round(e["time"] + ob.time, 4)
                if ob.solver not in e["solvers"]:
                    e["solvers"].append(ob.solver)
                if ob.status != "discharged":
                    if ob.status == "failed" or e["status"] != "failed":
                        e["status"] = ob.status
                    e["failures"].append({"detail": ob.detail, "model": ob.model, "path": ob.path, "smt2": ob.smt2,
                                          "where": ob.where, "status": ob.status})
    except Exception as exc:  # noqa: BLE001
        error = f"unsupported: {type(exc).__name__}: {exc}"
    crash = None
    if error is None and reach[0] == 0:
        crash = "vacuous lemma: requires unsatisfiable"
    return {"fn": f"lemma::{name}", "error": error, "crash": crash, "obligations": obs, "paths": len(obs), "reachable": reach[0],
            "queries": sum(e["paths"] for e in obs.values()), "assumed": sorted(assumed), "wall": round(time.time() - t0, 3),
            "solver_time": 0.0, "sha": None, "notes": [lem.get("note", "")], "exits": {}}
