"""python3-vt -m pyvc replay <file.json>: re-run the native replay of a recorded failed obligation."""
import json

from .report import run_native_replay


def run_replay(path):
    rep = json.load(open(path))
    print(f"property {rep['property']}  function {rep['fn']}  failed obligation {rep['obligation']}")
    print(f"clause: {rep.get('clause') or rep.get('where')}")
    print(f"solver: {rep.get('solver')}  output: {str(rep.get('solver_output'))[:500]}")
    code, out = run_native_replay(path)
    print(out)
    print({1: "REPRODUCED on the real code", 0: "not reproduced natively", 2: "cannot be replayed generically"}[code if code in (0, 1, 2) else 2])
    return 1 if code == 1 else 0
