"""Decides the exit code from the per-function results, triages known findings, writes replay files
and the evidence file (DESIGN.md section 4)."""
from __future__ import annotations

import hashlib
import json
import os
import re
import subprocess
import sys
import time

HERE = os.path.dirname(os.path.dirname(os.path.abspath(__file__)))
NATIVE_PY = "/venv/bin/python"

TRUSTED_BASE = [
    "pyvc translator (AST -> z3): /verif/pyvc, cross-checked against CPython by pyvc.crosscheck and by mutation canaries",
    "z3 4.x/5.1 (python3-vt z3-solver wheel) and /usr/bin/cvc5 1.0.3 for queries z3 leaves unknown",
    "CPython ast module (parsing of /repo sources)",
    "Python semantics as encoded in pyvc/ops.py and pyvc/lib.py: unbounded ints, timedelta/naive datetime as integer "
    "microseconds, floor division/modulo toward -inf, attribute lookup as read from the class ASTs, no monkey-patching",
    "induction principle for the pow2 lemmas and for 'an invariant preserved by every operation holds after every history'",
]


def load_findings():
    p = os.path.join(HERE, "known_findings.json")
    if not os.path.exists(p):
        return {"findings": [], "fixed": []}
    return json.load(open(p))


def load_baseline():
    """obligations discharged on the unchanged tree, with the hashes of the function bodies they were generated from
    (committed; written only by tools/gen_baseline.py, never at check time)"""
    p = os.path.join(HERE, "baseline.json")
    if not os.path.exists(p):
        return {}
    return json.load(open(p))


def regressed(baseline, prop, r, obname):
    """an obligation that was discharged on the unchanged tree and cannot be discharged now, while at least one function
    body it is generated from has changed: reported as a violation without a failing input (a solver that merely got
    slower on UNCHANGED code stays 'undecided')"""
    b = (baseline.get(prop) or {}).get(r["fn"])
    if not b or obname not in b.get("discharged", []):
        return False
    cur = set(r.get("body_shas") or [])
    if r.get("sha"):
        cur.add(r["sha"])
    return bool(cur - set(b.get("shas", [])))


def match_finding(findings, prop, fn, obname):
    for f in findings["findings"]:
        props = f.get("properties") or [f.get("property")]
        if prop in props and f["fn"] in (fn, fn.split("@")[0]) and f["obligation"] == obname:
            return f
    return None


def slug(s):
    return re.sub(r"[^A-Za-z0-9_.-]+", "_", s)[:120]


def write_replay(prop, repo_root, db, r, obname, e, fail):
    d = os.path.join(HERE, "out", "replay", prop)
    os.makedirs(d, exist_ok=True)
    short = r["fn"].split("::")[-1]
    base = os.path.join(d, slug(f"{short}__{obname}"))
    kind = obname.split(":")[0]
    clause = None
    if kind == "ensures":
        clause = (r.get("ensures") or {}).get(obname.split(":", 1)[1])
    elif kind == "raises-when":
        clause = (r.get("raises") or {}).get(obname.split(":")[1])
    rep = {
        "property": prop, "fn": r["fn"], "obligation": obname, "clause": clause, "where": fail.get("where") or e.get("where"),
        "solver": e["solvers"], "solver_output": fail.get("detail"), "model": fail.get("model"), "path": fail.get("path"),
        "source_sha": r.get("sha"), "repo_root": repo_root, "schema": r.get("schema"), "clock": r.get("clock", []),
        "defines": {k: [v[0], v[1]] for k, v in db.defines.items()},
    }
    if fail.get("smt2"):
        with open(base + ".smt2", "w") as fh:
            fh.write(fail["smt2"])
        rep["smt2"] = base + ".smt2"
    with open(base + ".json", "w") as fh:
        json.dump(rep, fh, indent=1, default=str)
    return base + ".json"


def run_native_replay(path, timeout=120):
    """returns (code, output): 1 reproduced, 0 not reproduced, 2 cannot replay"""
    try:
        out = subprocess.run([NATIVE_PY, os.path.join(HERE, "replaylib", "run.py"), path], capture_output=True,
                             text=True, timeout=timeout, cwd=HERE)
        return out.returncode, (out.stdout + out.stderr)[-4000:]
    except (subprocess.TimeoutExpired, OSError) as exc:
        return 2, f"replay did not finish: {exc}"


def run_demo(rel, repo_root, timeout=180):
    """a committed native demonstration (exit 1 = the violation is reproduced on the repository given as argv[1])"""
    try:
        out = subprocess.run([NATIVE_PY, os.path.join(HERE, rel), repo_root], capture_output=True, text=True, timeout=timeout, cwd=HERE)
        return out.returncode, (out.stdout + out.stderr)[-2000:]
    except (subprocess.TimeoutExpired, OSError) as exc:
        return 2, f"demo did not finish: {exc}"


def finish(prop, tier, repo_root, db, results, lemma_results, wall, verbose=False, reverify=None, extra=None):
    findings = load_findings()
    allres = list(results) + list(lemma_results)
    crashes = [r for r in allres if r["crash"]]
    errors = [r for r in allres if r["error"]]
    failed, undecided = [], []
    n_ob = n_dis = 0
    known_lines, violations = [], []
    known_obs = []
    samples = []
    per_ob = []
    for r in allres:
        for name, e in r["obligations"].items():
            n_ob += 1
            per_ob.append({"fn": r["fn"], "obligation": name, "status": e["status"], "solvers": e["solvers"],
                           "solver_time_s": e["time"], "paths": e["paths"]})
            if e["status"] == "discharged":
                n_dis += 1
                if len(samples) < 6:
                    samples.append({"fn": r["fn"], "obligation": name, "clause": e["where"][:200],
                                    "back_end": e["solvers"], "paths": e["paths"]})
            elif e["status"] == "failed":
                failed.append((r, name, e))
            else:
                undecided.append((r, name, e))
    # ---- triage failures against the known-findings file
    for r, name, e in failed:
        f = match_finding(findings, prop, r["fn"], name)
        if f is not None:
            still = None
            if f.get("case") and reverify is not None:
                still = reverify(r["fn"], name, f["case"])   # 'discharged' | 'failed' | 'undecided'
            if f.get("case") is None or still == "discharged":
                known_lines.append(f"KNOWN-FINDING: property={prop} {f['id']} {f['what']}")
                known_obs.append({"fn": r["fn"], "obligation": name, "finding": f["id"],
                                  "outside_case": still or "whole clause"})
                if still == "discharged":
                    n_dis += 1          # the clause is proved on the complement of the finding's case
                else:
                    n_ob -= 1           # whole-clause finding: not counted as an obligation of this run
                continue
            if still == "undecided":
                known_lines.append(f"KNOWN-FINDING: property={prop} {f['id']} {f['what']}")
                undecided.append((r, name + " (outside known case)", e))
                continue
        fail = e["failures"][0] if e["failures"] else {}
        path = write_replay(prop, repo_root, db, r, name, e, fail)
        code, out = run_native_replay(path)
        rep = json.load(open(path))
        rep["native_replay"] = {"exit": code, "output": out}
        json.dump(rep, open(path, "w"), indent=1, default=str)
        violations.append((r["fn"], name, path, code, e))
    # ---- undecided obligations covered by a known finding that carries BOTH a case predicate and a native demo:
    # the solvers find no counter-model (quantified context), but the clause is proved outside the case and the demo
    # reproduces the failure on the real code of THIS tree - checked on every run
    for item in list(undecided):
        r, name, e = item
        f = match_finding(findings, prop, r["fn"], name)
        if f is None or not f.get("case") or not f.get("demo") or reverify is None:
            continue
        code, out = run_demo(f["demo"], repo_root)
        if code != 1:
            continue                                   # the demo does not fail any more: nothing known about this obligation
        if reverify(r["fn"], name, f["case"]) != "discharged":
            continue
        undecided.remove(item)
        known_lines.append(f"KNOWN-FINDING: property={prop} {f['id']} {f['what']}")
        known_obs.append({"fn": r["fn"], "obligation": name, "finding": f["id"], "outside_case": "discharged",
                          "inside_case": "native demo reproduces the failure", "demo": f["demo"], "demo_output": out[-600:]})
        n_dis += 1
    # ---- obligations proved on the unchanged tree that the changed code no longer lets any solver prove
    baseline = load_baseline()
    for item in list(undecided):
        r, name, e = item
        if e.get("status") == "failed" or not regressed(baseline, prop, r, name):
            continue
        again = (extra or {}).get("recheck")
        verdict = again(r["fn"], name) if again is not None else "undecided"
        if verdict == "discharged":
            undecided.remove(item)          # decided after all, with the larger budget: counts as discharged
            n_dis += 1
            e["status"] = "discharged"
            e["solvers"] = sorted(set(e["solvers"]) | {"recheck"})
            for o in per_ob:
                if o["fn"] == r["fn"] and o["obligation"] == name:
                    o["status"], o["solvers"] = "discharged", e["solvers"]
            continue
        if verdict == "failed":
            continue                        # (cannot happen without a counterexample; stays undecided)
        undecided.remove(item)
        fail = dict(e["failures"][0]) if e["failures"] else {}
        fail["detail"] = ("no solver of the portfolio could discharge this obligation any more; it was discharged on the unchanged tree "
                          f"(baseline.json) and the function body changed since. solver output: {fail.get('detail') or 'unknown'}")
        fail.pop("model", None)
        path = write_replay(prop, repo_root, db, r, name, e, fail)
        violations.append((r["fn"], name, path, 2, e))
    # ---- bounded stand-ins: a failing case is a concrete failing input of the real function
    for b in (extra or {}).get("bounded_failures", []):
        d = os.path.join(HERE, "out", "replay", prop)
        os.makedirs(d, exist_ok=True)
        path = os.path.join(d, slug(f"bounded__{b['name']}") + ".json")
        json.dump({"property": prop, "fn": b.get("fn"), "obligation": f"bounded:{b['name']}", "bound": b.get("bound"),
                   "failing_cases": b.get("failures"), "replay_cmd": f"/venv/bin/python /verif/replaylib/bounded.py {b['name']} {repo_root} {tier}"},
                  open(path, "w"), indent=1)
        violations.append((b.get("fn"), f"bounded:{b['name']}", path, 1,
                           {"where": f"bounded stand-in found {b['n_failures']} failing case(s): {b['failures'][:1]}"}))
    cc = (extra or {}).get("crosscheck")
    if cc:
        print(f"[crosscheck] functions={cc['functions']} samples={cc['samples']} clause_evaluations={cc['clause_evaluations']} "
              f"disagreements={len(cc['disagreements'])}")
        for d in cc["disagreements"][:3]:
            print(f"    ENGINE/CPYTHON DISAGREEMENT {d['fn']} clause {d['clause']} inputs {d['inputs']}")
        if cc["disagreements"]:
            crashes.append({"fn": "crosscheck", "crash": "a discharged clause is false natively on a sampled input"})
    for b in (extra or {}).get("bounded", []):
        print(f"[bounded] {b.get('name')}: evaluations={b.get('evaluations')} failures={b.get('n_failures')} bound={b.get('bound')}"
              + (f" ERROR {b.get('error')}" if b.get("error") else ""))
        if b.get("error"):
            crashes.append({"fn": b.get("name"), "crash": b.get("error")})
    # ---- print
    for r in allres:
        tag = "ok"
        if r["crash"]:
            tag = "CRASH"
        elif r["error"]:
            tag = "UNDECIDED"
        print(f"[{tag}] {r['fn']}: paths={r['paths']} reachable={r['reachable']} obligations={len(r['obligations'])} "
              f"queries={r['queries']} wall={r['wall']}s")
        if r["crash"]:
            print("   ", r["crash"].strip().replace("\n", "\n    "))
        if r["error"]:
            print("   ", r["error"])
        if r.get("unreached_raises"):
            print(f"    WARNING: declared exceptional exits never reached on any path: {r['unreached_raises']}")
        for name, e in r["obligations"].items():
            if verbose or e["status"] != "discharged":
                print(f"    {e['status']:<10} {name}  [{','.join(e['solvers'])} {e['time']}s x{e['paths']}] {e['where'][:110]}")
                for fl in e["failures"][:1]:
                    print(f"        {str(fl['detail'])[:400]}")
    print(f"property {prop}: obligations={n_ob} discharged={n_dis} violations={len(violations)} "
          f"known={len(known_lines)} undecided={len(undecided)} wall={wall:.1f}s")
    for ln in sorted(set(known_lines)):
        print(ln)
    code = 0
    if violations:
        code = 1
    elif crashes or (n_ob + len(known_obs)) == 0:
        code = 3
    elif errors or undecided:
        code = 2
    if code == 1:
        for fn, name, path, rc, e in violations:
            suffix = "" if rc == 1 else " no-failing-input-found"
            print(f"  failed obligation {fn.split('::')[-1]} / {name}: {e['where'][:160]}")
            print(f"VIOLATION property={prop} replay={path}{suffix}")
    elif code == 2:
        print(f"UNDECIDED property={prop}")
    elif code == 3:
        print(f"CHECKER-ERROR property={prop}")
    write_evidence(prop, tier, repo_root, db, allres, n_ob, n_dis, per_ob, samples, known_obs, violations, undecided,
                   errors, wall, code, extra or {})
    return code


def write_evidence(prop, tier, repo_root, db, allres, n_ob, n_dis, per_ob, samples, known_obs, violations, undecided,
                   errors, wall, code, extra):
    assumed = sorted({a for r in allres for a in r["assumed"]})
    fns = [{"fn": r["fn"], "source_sha256_16": r["sha"], "paths": r["paths"], "queries": r["queries"],
            "obligations": len(r["obligations"]), "wall_s": r["wall"], "exits": r.get("exits", {}),
            "body_shas": sorted(set(r.get("body_shas") or []) | ({r["sha"]} if r.get("sha") else set())),
            "covers_reached": r.get("covered", {})} for r in allres]
    contract = {}
    for c in db.contracts.values():
        if prop in c.serves:
            contract[c.fn] = "assumed" if c.assumed else "verified against the body"
    solver_time = round(sum(o["solver_time_s"] for o in per_ob), 3)
    back_ends = {}
    for o in per_ob:
        for s in o["solvers"]:
            back_ends[s] = back_ends.get(s, 0) + 1
    not_decided = extra.get("not_decided", [])
    ev = {
        "property_id": prop,
        "tier": tier if tier in ("quick", "thorough") else "quick",
        "seed": int(os.environ.get("VERIF_SEED", "0") or 0),
        "level": "proof",
        "coverage": {
            "obligations": max(n_ob, 0),
            "discharged": n_dis,
            "checker_cmd": f"python3-vt -m pyvc check {prop} --tier {tier}",
            "trusted_base": TRUSTED_BASE,
            "samples": samples or [{"note": "no discharged obligation in this run"}],
            "functions_under_contract": fns,
            "contracts_serving_property": contract,
            "per_obligation": per_ob,
            "back_ends": back_ends,
            "solver_time_s": solver_time,
            "queries": sum(r["queries"] for r in allres),
            "known_finding_obligations": known_obs,
            "undecided": [{"fn": r["fn"], "obligation": n} for r, n, _e in undecided],
            "unsupported": [{"fn": r["fn"], "reason": r["error"]} for r in errors],
            "violations": [{"fn": fn, "obligation": n, "replay": p, "native_replay_exit": rc} for fn, n, p, rc, _e in violations],
            "functions_with_bounded_stand_in_only": [b.get("fn") for b in extra.get("bounded", [])
                                                      if isinstance(b, dict) and "in addition" not in str(b.get("label"))],
            "property_clauses_not_decided": not_decided,
            "bounded_stand_ins": extra.get("bounded", []),
            "crosscheck": extra.get("crosscheck", {}),
            "second_opinion_cvc5": {k: sum((r.get("second_opinion") or {}).get(k, 0) for r in allres)
                                    for k in ("asked", "agree", "unknown", "skipped")},
            "unreached_exceptional_exits": [{"fn": r["fn"], "raises": r["unreached_raises"]} for r in allres if r.get("unreached_raises")],
            "exit_code": code,
            "repo_root": repo_root,
        },
        "assumptions": assumed + extra.get("assumptions", []),
        "wall_s": round(wall, 2),
        "violations": len(violations),
    }
    if os.environ.get("PYVC_NO_EVIDENCE"):
        return
    d = os.path.join(HERE, "evidence")
    os.makedirs(d, exist_ok=True)
    with open(os.path.join(d, f"{prop}.json"), "w") as fh:
        json.dump(ev, fh, indent=1, default=str)
