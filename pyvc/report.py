"""Decides the exit code from the per-function results, prints the summary, writes evidence."""
from __future__ import annotations

import json
import os

HERE = os.path.dirname(os.path.dirname(os.path.abspath(__file__)))


def finish(prop, tier, repo_root, db, results, lemma_results, wall, verbose=False):
    allres = list(results) + list(lemma_results)
    crashes = [r for r in allres if r["crash"]]
    errors = [r for r in allres if r["error"]]
    failed, undecided = [], []
    n_ob = n_dis = 0
    for r in allres:
        for name, e in r["obligations"].items():
            n_ob += 1
            if e["status"] == "discharged":
                n_dis += 1
            elif e["status"] == "failed":
                failed.append((r["fn"], name, e))
            else:
                undecided.append((r["fn"], name, e))
    for r in allres:
        tag = "ok"
        if r["crash"]:
            tag = "CRASH"
        elif r["error"]:
            tag = "UNDECIDED"
        print(f"[{tag}] {r['fn']}: paths={r['paths']} reachable={r['reachable']} obligations={len(r['obligations'])} "
              f"queries={r['queries']} wall={r['wall']}s")
        if r["crash"]:
            print("   ", r["crash"].strip().replace("\n", "\n    "))
        if r["error"]:
            print("   ", r["error"])
        for name, e in r["obligations"].items():
            if verbose or e["status"] != "discharged":
                print(f"    {e['status']:<10} {name}  [{','.join(e['solvers'])} {e['time']}s x{e['paths']}] {e['where'][:100]}")
                for f in e["failures"][:1]:
                    print(f"        {f['detail'][:300]}")
    print(f"property {prop}: obligations={n_ob} discharged={n_dis} failed={len(failed)} undecided={len(undecided)} wall={wall:.1f}s")
    if crashes or n_ob == 0:
        return 3
    if failed:
        for fn, name, e in failed:
            print(f"VIOLATION property={prop} replay=- no-failing-input-found")
        return 1
    if errors or undecided:
        print(f"UNDECIDED property={prop}")
        return 2
    return 0
