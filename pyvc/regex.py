"""The (tiny) regular-expression subset of repid/_utils/regex_validators.py -> z3 regular expressions.
Supported: character classes with ranges and literals, literal characters, + * ? quantifiers, concatenation."""
from __future__ import annotations

import z3

from .loader import Unsupported


def compile_re(pat: str):
    i = 0
    parts = []
    while i < len(pat):
        ch = pat[i]
        if ch == "[":
            j = pat.index("]", i)
            body = pat[i + 1:j]
            alts = []
            k = 0
            while k < len(body):
                if k + 2 < len(body) and body[k + 1] == "-":
                    alts.append(z3.Range(body[k], body[k + 2]))
                    k += 3
                else:
                    c = body[k]
                    if c == "\\":
                        k += 1
                        c = body[k]
                    alts.append(z3.Re(c))
                    k += 1
            atom = alts[0] if len(alts) == 1 else z3.Union(*alts)
            i = j + 1
        elif ch in "()|.^$\\{":
            raise Unsupported(f"regular expression construct {ch!r} in {pat!r}")
        else:
            atom = z3.Re(ch)
            i += 1
        if i < len(pat) and pat[i] in "+*?":
            q = pat[i]
            atom = {"+": z3.Plus, "*": z3.Star, "?": z3.Option}[q](atom)
            i += 1
        parts.append(atom)
    if not parts:
        return z3.Re("")
    return parts[0] if len(parts) == 1 else z3.Concat(*parts)
