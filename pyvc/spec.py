"""Contract declarations (sidecar files under /verif/contracts import this module).

Clauses are Python expression strings; they are translated to z3 by the same evaluator that
executes the code (pyvc.interp) and evaluated natively for replays (replaylib).
"""
from __future__ import annotations

from dataclasses import dataclass, field


@dataclass
class Raises:
    exc: str                      # class name
    when: str = "True"            # condition over the pre-state (and clock names)
    mode: str = "iff"             # 'iff': raises exactly when `when`; 'may': may raise, only when `when`
    ensures: dict = field(default_factory=dict)   # exceptional postconditions
    effects: list = field(default_factory=list)   # ghost events appended before raising
    modifies: list = field(default_factory=list)
    anysub: bool = False          # the raised class is `exc` or any subclass
    bind: str | None = None       # name under which the exception value is visible in `ensures`
    fields: dict = field(default_factory=dict)    # attributes of the raised exception: name -> type string
    fresh: dict = field(default_factory=dict)     # name -> (type, witness expr)


@dataclass
class Contract:
    fn: str                                   # 'repid/x.py::Class.method' or an external name
    serves: list = field(default_factory=list)
    params: list | None = None                # external functions: parameter names (self first for methods)
    defaults: dict = field(default_factory=dict)   # external functions: default values as expression strings
    binds: dict = field(default_factory=dict)      # param -> type string (overrides annotations)
    returns: str | None = None                # type string of the result (None: from annotation / none)
    clock: list = field(default_factory=list)      # names for successive wall-clock readings in clauses
    requires: list = field(default_factory=list)
    ensures: dict = field(default_factory=dict)
    raises: list = field(default_factory=list)     # list[Raises]
    modifies: list = field(default_factory=list)   # location expressions
    effects: list = field(default_factory=list)    # [(ghost_list_name, tuple_expr)] appended on normal return
    assumed: bool = False
    is_async: bool | None = None
    yields: bool | None = None                # awaiting it is a yield point (default: async -> True)
    pure: bool = False
    lets: dict = field(default_factory=dict)       # name -> expr evaluated in the pre-state, usable in clauses
    loops: dict = field(default_factory=dict)      # loop ordinal -> LoopInv
    on_cancel: dict = field(default_factory=dict)  # postconditions when CancelledError is thrown at an await
    yield_inv: dict = field(default_factory=dict)  # must hold at every await of this function
    shared: list = field(default_factory=list)     # locations other tasks may change at a yield point
    rely: list = field(default_factory=list)       # two-state conditions on what they may do (old() = before)
    ghost_init: dict = field(default_factory=dict) # ghost name -> type string, symbolic at entry
    note: str = ""
    replay: str | None = None                 # name of a replay recipe in replaylib
    trace_exact: bool = True                  # effects are the *only* ghost events of a normal return
    raises_open: bool = False                 # (assumed contracts) exceptions not listed never happen
    fresh_result: bool = True
    result_fields: dict = field(default_factory=dict)
    cancel_at_yield: bool = False             # explore CancelledError at every await of this function
    inline: bool = False
    harness_src: str | None = None                 # sidecar composition of real functions (e.g. decode(encode(x))): fn = 'harness::<name>'
    harness_module: str | None = None              # repository module whose names the harness sees
    inline_in_harness: bool = False                # callers inside a harness execute this function's real body
    float_model: str = "exact"                     # 'exact' | 'ieee': total_seconds() etc. with relative error 2**-53
    cuts: dict = field(default_factory=dict)       # ordered lemma steps over the post-state: each is PROVED, then assumed for the next ones and the ensures
    options: dict = field(default_factory=dict)    # engine switches for this function (e.g. {"json_loads": "object"})
    seq_lemmas: bool = False                       # state list.append element-wise as well (helps quantified index invariants)
    covers: dict = field(default_factory=dict)     # name -> post-state condition that must be REACHABLE on some normal return
    bounded_extra: str | None = None               # a bounded native check run IN ADDITION to the proof (catches rewrites the sidecar cannot follow)
    bounded_clauses: list = field(default_factory=list)   # with `bounded`: ONLY these ensures clauses (globs) are left to the stand-in, the rest is proved
    bounded: str | None = None                     # name of a bounded stand-in (replaylib/bounded.py); implies not proved
    setup: object = None                           # callable(ip, env): installs concrete parts of the pre-state (representation)
    variants: dict = field(default_factory=dict)       # variant name -> binds override (+ '__override__': contract fields): the body is verified once per variant
    clause_props: dict = field(default_factory=dict)   # obligation-name glob -> properties it belongs to (default: all of serves)
    active_variant: str | None = None         # set by the runner while a variant of this contract is being verified / applied
    result_expr: str | None = None            # the result is this (existing) value, not a fresh one
    fresh: dict = field(default_factory=dict)      # name -> (type string, witness expr): values created by the function


@dataclass
class LoopInv:
    header: str                    # ast.unparse of the loop header (fingerprint)
    invariant: list                # clauses
    modifies: list = field(default_factory=list)   # locals / locations assigned in the loop
    ghost: dict = field(default_factory=dict)
    decreases: str | None = None


class SpecDB:
    def __init__(self):
        self.contracts: dict[str, Contract] = {}
        self.by_short: dict[str, Contract] = {}
        self.shapes: dict[str, dict] = {}        # class -> {field: type string}
        self.defines: dict[str, tuple] = {}      # spec function name -> (params, expr)
        self.ufuns: dict[str, tuple] = {}        # uninterpreted spec functions name -> ([types], type)
        self.aliases: dict[str, str] = {}        # type alias (protocol -> concrete class)
        self.lemmas: list = []
        self.axioms: list = []                   # (name, [ (var,type) ], expr) assumed facts about ufuns
        self.extern_classes: dict[str, dict] = {}  # external class -> {'bases': [...]}
        self.findings: list = []
        self.symbolic_classes: set = set()       # classes whose instances are immutable symbolic-identity objects
        self.meta: dict[str, dict] = {}          # property -> {'not_decided': [...], 'assumptions': [...], 'bounded': [...]}

    def contract(self, **kw) -> Contract:
        c = Contract(**kw)
        if c.fn in self.contracts:
            raise ValueError(f"duplicate contract for {c.fn}")
        self.contracts[c.fn] = c
        short = c.fn.split("::")[-1]
        self.by_short.setdefault(short, c)
        return c

    def shape(self, cls: str, fields: dict, bases=None):
        self.shapes.setdefault(cls, {}).update(fields)
        if bases is not None:
            self.extern_classes[cls] = {"bases": list(bases)}

    def define(self, sig: str, expr: str):
        name, rest = sig.split("(", 1)
        params = [p.strip() for p in rest.rstrip(")").split(",") if p.strip()]
        self.defines[name.strip()] = (params, expr)

    def ufun(self, name: str, argtypes: list, rettype: str):
        self.ufuns[name] = (list(argtypes), rettype)

    def alias(self, a: str, b: str):
        self.aliases[a] = b

    def axiom(self, name: str, vars_: list, expr: str):
        self.axioms.append((name, vars_, expr))

    def prop_meta(self, prop: str, not_decided=(), assumptions=(), bounded=()):
        m = self.meta.setdefault(prop, {"not_decided": [], "assumptions": [], "bounded": []})
        m["not_decided"] += list(not_decided)
        m["assumptions"] += list(assumptions)
        m["bounded"] += list(bounded)

    def lookup(self, name: str) -> Contract | None:
        return self.contracts.get(name) or self.by_short.get(name)
