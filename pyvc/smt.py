"""Solver drivers: z3 (API) first, /usr/bin/cvc5 for the queries z3 leaves unknown."""
from __future__ import annotations

import os
import subprocess
import tempfile

import z3

OBL_TIMEOUT_MS = int(os.environ.get("PYVC_OBL_TIMEOUT_MS", "90000"))
CVC5_TIMEOUT_S = int(os.environ.get("PYVC_CVC5_TIMEOUT_S", "60"))
FIRST_TIMEOUT_MS = int(os.environ.get("PYVC_FIRST_TIMEOUT_MS", "5000"))
FRESH_TIMEOUT_MS = int(os.environ.get("PYVC_FRESH_TIMEOUT_MS", "30000"))
STATS = {"z3": 0, "cvc5": 0, "z3_time": 0.0, "cvc5_time": 0.0, "unknown": 0}


def has_quantifier(terms, limit=400) -> bool:
    seen = 0
    stack = list(terms)
    while stack and seen < limit:
        t = stack.pop()
        seen += 1
        try:
            if z3.is_quantifier(t):
                return True
            stack.extend(t.children())
        except Exception:  # noqa: BLE001
            continue
    return False


def confirm_unsat(solver: z3.Solver, extra, timeout_ms: int) -> str:
    """z3 5.1 was seen to answer `unsat` at random (about 1 run in 6 under load, after 0.25 s of a 1 s budget) on a
    satisfiable 4-assertion query with an existential over strings; asked again, the same solver said `sat`
    (DESIGN.md 15).  An `unsat` on a query with quantifiers is therefore believed only if a second, fresh solver
    over the same assertions answers `unsat` too; anything else counts as `unknown`."""
    assertions = list(solver.assertions())
    if not has_quantifier(assertions + ([extra] if extra is not None else [])):
        return "unsat"
    STATS["confirmations"] = STATS.get("confirmations", 0) + 1
    s2 = z3.Solver()
    s2.set("timeout", int(timeout_ms))
    s2.set("random_seed", 7)
    for a in assertions:
        s2.add(a)
    if extra is not None:
        s2.add(extra)
    r = s2.check()
    if r == z3.unsat:
        return "unsat"
    STATS["unconfirmed_unsat"] = STATS.get("unconfirmed_unsat", 0) + 1
    return "unknown"


class SolverDisagreement(Exception):
    """z3 answered unsat and cvc5 answered sat on the same query: neither is believed, the run is a checker error"""


SECOND = {"asked": 0, "agree": 0, "unknown": 0, "skipped": 0}


def second_opinion(solver: z3.Solver, what: str):
    """thorough tier (PYVC_SECOND_OPINION=1): z3 has just answered unsat on the solver's current assertions - for a
    pruned path or a discharged obligation.  Queries with quantifiers or sequences (where a spurious unsat of z3 was
    observed, DESIGN.md 15) are put to cvc5 as well; `sat` there is a disagreement."""
    if not os.environ.get("PYVC_SECOND_OPINION"):
        return
    try:
        smt2 = solver.to_smt2()
    except Exception:  # noqa: BLE001
        SECOND["skipped"] += 1
        return
    if "forall" not in smt2 and "exists" not in smt2 and "seq." not in smt2:
        SECOND["skipped"] += 1
        return
    SECOND["asked"] += 1
    r = run_cvc5(smt2, int(os.environ.get("PYVC_SECOND_TIMEOUT_S", "10")))
    if r == "sat":
        path = os.path.join(_scratch(), f"disagreement_{os.getpid()}_{SECOND['asked']}.smt2")
        with open(path, "w") as fh:
            fh.write(portable(smt2))
        raise SolverDisagreement(f"{what}: z3 unsat, cvc5 sat; query kept at {path}")
    SECOND["agree" if r == "unsat" else "unknown"] += 1


LAST = {"first_unknown": False}
HARD: set = set()      # obligation names that needed the race before (in this worker process)


def check_with_fallback(solver: z3.Solver, negated_goal, key=None):
    """returns (result, model|None, solver_name, smt2|None)"""
    import time
    t0 = time.time()
    solver.push()
    solver.add(negated_goal)
    # first a short z3 attempt, then cvc5 on the dumped query, then z3 with the full budget
    # adaptive first attempt: an obligation (by name) that the incremental z3 left open before gets 0.5 s instead of 5 s
    # before the race of fresh z3 / cvc5 / z3 4.8 starts
    solver.set("timeout", min(500, FIRST_TIMEOUT_MS) if key is not None and key in HARD else FIRST_TIMEOUT_MS)
    r = solver.check()
    if r == z3.unsat and confirm_unsat(solver, None, max(FIRST_TIMEOUT_MS, 5000)) != "unsat":
        r = z3.unknown          # (the assertions already include the negated goal: it was added above)
    LAST["first_unknown"] = (r == z3.unknown)
    if r == z3.unknown and key is not None:
        HARD.add(key)
    model = solver.model() if r == z3.sat else None
    if r == z3.sat and not _model_ok(model, negated_goal):
        r, model = z3.unknown, None      # z3 produced a model that does not satisfy the query (seen with seq.last_indexof)
        STATS["bad_models"] = STATS.get("bad_models", 0) + 1
    smt2 = None
    if r != z3.unsat:
        try:
            smt2 = solver.to_smt2()
        except Exception:  # pragma: no cover
            smt2 = None
    solver_used = "z3"
    if r == z3.unsat:
        try:
            second_opinion(solver, "obligation")
        except SolverDisagreement:
            solver.pop()
            raise
    if r == z3.unknown and smt2 is not None:
        # the incremental solver gave up: the same query goes to a FRESH in-process z3 (observed: queries that time out
        # in the incremental context are decided in well under a second by a fresh z3) and, at the same time, to the
        # external portfolio (cvc5, cvc5 --enum-inst, z3 4.8); the first definitive answer wins and stops the others
        t1 = time.time()
        res, m2, who = race(smt2, negated_goal, solver.ctx)
        STATS["cvc5"] += 1
        STATS["cvc5_time"] += time.time() - t1
        if res in ("unsat", "sat"):
            solver.pop()
            solver.set("timeout", 5000)
            return res, m2, who, (smt2 if res == "sat" else None)
    solver.pop()
    solver.set("timeout", 5000)
    STATS["z3"] += 1
    STATS["z3_time"] += time.time() - t0
    if r == z3.unsat:
        return "unsat", None, solver_used, None
    if r == z3.sat:
        return "sat", model, solver_used, smt2
    STATS["unknown"] += 1
    return "unknown", None, "z3+cvc5", smt2


def race(smt2: str, negated_goal, main_ctx):
    """fresh in-process z3 (own context, own thread) against the external portfolio; returns (result, model|None, who)"""
    import threading
    import time
    path, procs = start_portfolio(smt2, CVC5_TIMEOUT_S)
    box = {}
    ctx = z3.Context()
    fresh = z3.Solver(ctx=ctx)
    fresh.set("timeout", FRESH_TIMEOUT_MS)

    def run():
        try:
            fresh.from_string(smt2)
            box["r"] = fresh.check()
        except z3.Z3Exception:
            box["r"] = None

    th = threading.Thread(target=run, daemon=True)
    th.start()
    deadline = time.time() + CVC5_TIMEOUT_S + 5
    pending = dict(procs)
    z3_done = False
    # on quantified queries a single z3 engine's `unsat` is not believed (see confirm_unsat): cvc5's `unsat`, or the
    # agreement of two different z3 engines (5.1 in-process, 4.8 CLI), is
    quantified = ("(forall " in smt2) or ("(exists " in smt2)
    votes = set()
    try:
        while time.time() < deadline and (pending or not z3_done):
            if not z3_done and not th.is_alive():
                z3_done = True
                r2 = box.get("r")
                if r2 is not None and r2 == z3.unsat:
                    if not quantified:
                        return "unsat", None, "z3-fresh"
                    votes.add("z3-fresh")
                if r2 is not None and r2 == z3.sat:
                    try:
                        m = fresh.model()
                        if _model_ok(m, negated_goal.translate(ctx)):
                            return "sat", m.translate(main_ctx), "z3-fresh"
                    except z3.Z3Exception:
                        pass
            for k, p in list(pending.items()):
                if p.poll() is not None:
                    out = (p.stdout.read() or "").strip().splitlines()
                    first = out[0] if out else ""
                    del pending[k]
                    if first == "sat":
                        return first, None, k
                    if first == "unsat":
                        if k.startswith("cvc5") or not quantified:
                            return first, None, k
                        votes.add(k)
            if len(votes) >= 2:
                return "unsat", None, "+".join(sorted(votes))
            time.sleep(0.02)
        return "unknown", None, "portfolio"
    finally:
        if th.is_alive():
            try:
                ctx.interrupt()
            except Exception:  # noqa: BLE001
                pass
            th.join(timeout=10)
        stop_portfolio(path, procs)


def start_portfolio(smt2: str, timeout_s: int):
    text = portable(smt2)
    with tempfile.NamedTemporaryFile("w", suffix=".smt2", delete=False, dir=_scratch()) as fh:
        fh.write(text)
        path = fh.name
    cmds = {"cvc5": ["/usr/bin/cvc5", "--strings-exp", f"--tlimit={timeout_s * 1000}", path],
            "cvc5-enum-inst": ["/usr/bin/cvc5", "--strings-exp", "--enum-inst", f"--tlimit={timeout_s * 1000}", path],
            "z3-4.8": ["/usr/bin/z3", f"-T:{timeout_s}", path]}
    procs = {}
    for k, c in cmds.items():
        try:
            procs[k] = subprocess.Popen(c, stdout=subprocess.PIPE, stderr=subprocess.DEVNULL, text=True)
        except OSError:
            pass
    return path, procs


def stop_portfolio(path, procs):
    for p in procs.values():
        if p.poll() is None:
            p.kill()
        try:
            p.wait(timeout=5)
        except Exception:  # noqa: BLE001
            pass
        if p.stdout:
            p.stdout.close()
    try:
        os.unlink(path)
    except OSError:
        pass


def run_portfolio(smt2: str, timeout_s: int):
    """cvc5 (default and --enum-inst) and z3 4.8 on the dumped query, concurrently; the first definitive answer wins"""
    import time
    text = portable(smt2)
    with tempfile.NamedTemporaryFile("w", suffix=".smt2", delete=False, dir=_scratch()) as fh:
        fh.write(text)
        path = fh.name
    cmds = {"cvc5": ["/usr/bin/cvc5", "--strings-exp", f"--tlimit={timeout_s * 1000}", path],
            "cvc5-enum-inst": ["/usr/bin/cvc5", "--strings-exp", "--enum-inst", f"--tlimit={timeout_s * 1000}", path],
            "z3-4.8": ["/usr/bin/z3", f"-T:{timeout_s}", path]}
    procs = {}
    try:
        for k, c in cmds.items():
            try:
                procs[k] = subprocess.Popen(c, stdout=subprocess.PIPE, stderr=subprocess.DEVNULL, text=True)
            except OSError:
                pass
        deadline = time.time() + timeout_s + 5
        answer = ("unknown", "portfolio")
        pending = dict(procs)
        while pending and time.time() < deadline:
            for k, p in list(pending.items()):
                if p.poll() is not None:
                    out = (p.stdout.read() or "").strip().splitlines()
                    first = out[0] if out else ""
                    del pending[k]
                    if first in ("sat", "unsat"):
                        return first, k
            time.sleep(0.05)
        return answer
    finally:
        for p in procs.values():
            if p.poll() is None:
                p.kill()
        try:
            os.unlink(path)
        except OSError:
            pass


def portable(smt2: str) -> str:
    """z3's simplifier prints seq.nth(s, i) as ite(in-bounds, seq.nth_i(s, i), seq.nth_u(s, i)); both internal symbols
    denote seq.nth(s, i) on their side of the test, so writing seq.nth for either gives an equivalent, standard query"""
    import re
    text = re.sub(r"seq\.nth_[iu]\b", "seq.nth", smt2)
    return text if "(set-logic" in text else "(set-logic ALL)\n" + text


def _model_ok(model, negated_goal) -> bool:
    """a counter-model is only believed if the negated goal evaluates to true in it (quantified goals: not decidable
    by evaluation - accepted)"""
    try:
        v = model.eval(negated_goal, model_completion=True)
    except z3.Z3Exception:
        return True
    if z3.is_false(v):
        return False
    return True


def run_cvc5(smt2: str, timeout_s: int | None = None) -> str:
    timeout_s = timeout_s or CVC5_TIMEOUT_S
    text = portable(smt2)
    with tempfile.NamedTemporaryFile("w", suffix=".smt2", delete=False, dir=_scratch()) as fh:
        fh.write(text)
        path = fh.name
    try:
        out = subprocess.run(["/usr/bin/cvc5", "--strings-exp", f"--tlimit={timeout_s * 1000}", path],
                             capture_output=True, text=True, timeout=timeout_s + 5)
        first = out.stdout.strip().splitlines()[0] if out.stdout.strip() else ""
        return first if first in ("sat", "unsat") else "unknown"
    except (subprocess.TimeoutExpired, OSError):
        return "unknown"
    finally:
        try:
            os.unlink(path)
        except OSError:
            pass


def _scratch():
    d = os.path.join(os.path.dirname(os.path.dirname(os.path.abspath(__file__))), "out", "smt")
    os.makedirs(d, exist_ok=True)
    return d


def model_to_dict(model, input_terms: dict) -> dict:
    out = {}
    for name, term in input_terms.items():
        try:
            v = model.eval(term, model_completion=True)
        except z3.Z3Exception:
            continue
        out[name] = z3_to_py(v)
    return out


def z3_to_py(v):
    if z3.is_int_value(v):
        return v.as_long()
    if z3.is_true(v):
        return True
    if z3.is_false(v):
        return False
    if z3.is_rational_value(v):
        return {"num": v.numerator_as_long(), "den": v.denominator_as_long()}
    if z3.is_string_value(v):
        return v.as_string()
    return str(v)
