"""Solver drivers: z3 (API) first, /usr/bin/cvc5 for the queries z3 leaves unknown."""
from __future__ import annotations

import os
import subprocess
import tempfile

import z3

OBL_TIMEOUT_MS = int(os.environ.get("PYVC_OBL_TIMEOUT_MS", "90000"))
CVC5_TIMEOUT_S = int(os.environ.get("PYVC_CVC5_TIMEOUT_S", "60"))
FIRST_TIMEOUT_MS = int(os.environ.get("PYVC_FIRST_TIMEOUT_MS", "5000"))
FRESH_TIMEOUT_MS = int(os.environ.get("PYVC_FRESH_TIMEOUT_MS", "30000"))
STATS = {"z3": 0, "cvc5": 0, "z3_time": 0.0, "cvc5_time": 0.0, "unknown": 0}


def check_with_fallback(solver: z3.Solver, negated_goal):
    """returns (result, model|None, solver_name, smt2|None)"""
    import time
    t0 = time.time()
    solver.push()
    solver.add(negated_goal)
    # first a short z3 attempt, then cvc5 on the dumped query, then z3 with the full budget
    solver.set("timeout", FIRST_TIMEOUT_MS)
    r = solver.check()
    model = solver.model() if r == z3.sat else None
    if r == z3.sat and not _model_ok(model, negated_goal):
        r, model = z3.unknown, None      # z3 produced a model that does not satisfy the query (seen with seq.last_indexof)
        STATS["bad_models"] = STATS.get("bad_models", 0) + 1
    smt2 = None
    if r != z3.unsat:
        try:
            smt2 = solver.to_smt2()
        except Exception:  # pragma: no cover
            smt2 = None
    solver_used = "z3"
    if r == z3.unknown and smt2 is not None:
        # the incremental solver gave up: the same query on FRESH solvers (observed: queries that time out in the
        # incremental context are decided in well under a second by a fresh z3), then an external portfolio
        t1 = time.time()
        try:
            fresh = z3.Solver()
            fresh.set("timeout", FRESH_TIMEOUT_MS)
            fresh.from_string(smt2)
            r2 = fresh.check()
        except z3.Z3Exception:
            r2 = z3.unknown
        if r2 == z3.unsat:
            solver.pop()
            solver.set("timeout", 5000)
            STATS["z3"] += 1
            return "unsat", None, "z3-fresh", None
        if r2 == z3.sat and _model_ok(fresh.model(), negated_goal):
            m2 = fresh.model()
            solver.pop()
            solver.set("timeout", 5000)
            return "sat", m2, "z3-fresh", smt2
        res, who = run_portfolio(smt2, CVC5_TIMEOUT_S)
        STATS["cvc5"] += 1
        STATS["cvc5_time"] += time.time() - t1
        if res in ("unsat", "sat"):
            solver.pop()
            solver.set("timeout", 5000)
            return res, None, who, smt2
    solver.pop()
    solver.set("timeout", 5000)
    STATS["z3"] += 1
    STATS["z3_time"] += time.time() - t0
    if r == z3.unsat:
        return "unsat", None, solver_used, None
    if r == z3.sat:
        return "sat", model, solver_used, smt2
    STATS["unknown"] += 1
    return "unknown", None, "z3+cvc5", smt2


def run_portfolio(smt2: str, timeout_s: int):
    """cvc5 (default and --enum-inst) and z3 4.8 on the dumped query, concurrently; the first definitive answer wins"""
    import time
    text = smt2 if "(set-logic" in smt2 else "(set-logic ALL)\n" + smt2
    with tempfile.NamedTemporaryFile("w", suffix=".smt2", delete=False, dir=_scratch()) as fh:
        fh.write(text)
        path = fh.name
    cmds = {"cvc5": ["/usr/bin/cvc5", "--strings-exp", f"--tlimit={timeout_s * 1000}", path],
            "cvc5-enum-inst": ["/usr/bin/cvc5", "--strings-exp", "--enum-inst", f"--tlimit={timeout_s * 1000}", path],
            "z3-4.8": ["/usr/bin/z3", f"-T:{timeout_s}", path]}
    procs = {}
    try:
        for k, c in cmds.items():
            try:
                procs[k] = subprocess.Popen(c, stdout=subprocess.PIPE, stderr=subprocess.DEVNULL, text=True)
            except OSError:
                pass
        deadline = time.time() + timeout_s + 5
        answer = ("unknown", "portfolio")
        pending = dict(procs)
        while pending and time.time() < deadline:
            for k, p in list(pending.items()):
                if p.poll() is not None:
                    out = (p.stdout.read() or "").strip().splitlines()
                    first = out[0] if out else ""
                    del pending[k]
                    if first in ("sat", "unsat"):
                        return first, k
            time.sleep(0.05)
        return answer
    finally:
        for p in procs.values():
            if p.poll() is None:
                p.kill()
        try:
            os.unlink(path)
        except OSError:
            pass


def _model_ok(model, negated_goal) -> bool:
    """a counter-model is only believed if the negated goal evaluates to true in it (quantified goals: not decidable
    by evaluation - accepted)"""
    try:
        v = model.eval(negated_goal, model_completion=True)
    except z3.Z3Exception:
        return True
    if z3.is_false(v):
        return False
    return True


def run_cvc5(smt2: str, timeout_s: int | None = None) -> str:
    timeout_s = timeout_s or CVC5_TIMEOUT_S
    text = smt2
    if "(set-logic" not in text:
        text = "(set-logic ALL)\n" + text
    with tempfile.NamedTemporaryFile("w", suffix=".smt2", delete=False, dir=_scratch()) as fh:
        fh.write(text)
        path = fh.name
    try:
        out = subprocess.run(["/usr/bin/cvc5", "--strings-exp", f"--tlimit={timeout_s * 1000}", path],
                             capture_output=True, text=True, timeout=timeout_s + 5)
        first = out.stdout.strip().splitlines()[0] if out.stdout.strip() else ""
        return first if first in ("sat", "unsat") else "unknown"
    except (subprocess.TimeoutExpired, OSError):
        return "unknown"
    finally:
        try:
            os.unlink(path)
        except OSError:
            pass


def _scratch():
    d = os.path.join(os.path.dirname(os.path.dirname(os.path.abspath(__file__))), "out", "smt")
    os.makedirs(d, exist_ok=True)
    return d


def model_to_dict(model, input_terms: dict) -> dict:
    out = {}
    for name, term in input_terms.items():
        try:
            v = model.eval(term, model_completion=True)
        except z3.Z3Exception:
            continue
        out[name] = z3_to_py(v)
    return out


def z3_to_py(v):
    if z3.is_int_value(v):
        return v.as_long()
    if z3.is_true(v):
        return True
    if z3.is_false(v):
        return False
    if z3.is_rational_value(v):
        return {"num": v.numerator_as_long(), "den": v.denominator_as_long()}
    if z3.is_string_value(v):
        return v.as_string()
    return str(v)
