"""C05 - delayed messages are never delivered early: Redis scores, RabbitMQ expirations."""
from pyvc.spec import Raises

U = "repid/connections/redis/utils.py::"
EPOCH = 62135596800 * 10**6


def register(db):
    # the instant (microseconds since datetime.min) from which a Redis consumer may take a name with this score:
    # it compares the score with unix_time() = floor(seconds since the epoch)
    db.define("earliest_take_us(score)", f"{EPOCH} + score * 10**6")
    db.define("due(P, now)", "P.delay.next_execution_time if P.delay.next_execution_time is not None else"
                             " (P.delay.delay_until if until_ahead(P, now) else None)")
    db.contract(
        fn=U + "unix_time", serves=["C05"], clock=["now"],
        ensures={"floor_of_now": f"implies(us(now) >= {EPOCH}, {EPOCH} + result * 10**6 <= us(now)"
                                 f" and us(now) < {EPOCH} + (result + 1) * 10**6)"},
        raises=[],
    )
    db.contract(
        fn=U + "wait_timestamp", serves=["C05", "C06"], clock=["now"], binds={"params": "Optional[Parameters]"},
        requires=["params is None or P_next_ok(params)"],
        ensures={
            "none": "implies(params is None, result is None)",
            # from the property: a consumer whose clock passes the score is at most 1 ms before the due time T
            "scheduled_never_early": "implies(params is not None and params.delay.next_execution_time is not None,"
                                     " result is not None and earliest_take_us(result) >= us(params.delay.next_execution_time) - 1000)",
            "scheduled_within_a_second": "implies(params is not None and params.delay.next_execution_time is not None,"
                                         " result is not None and earliest_take_us(result) < us(params.delay.next_execution_time) + 10**6)",
            "first_run_until_never_early": "implies(params is not None and params.delay.next_execution_time is None"
                                           " and until_ahead(params, now), result is not None"
                                           " and earliest_take_us(result) >= us(params.delay.delay_until) - 1000)",
            "first_run_periodic_in_future": "implies(params is not None and params.delay.next_execution_time is None"
                                            " and periodic(params, now), result is not None and earliest_take_us(result) > us(now) - 1000)",
            "immediate": "implies(params is not None and params.delay.next_execution_time is None"
                         " and not until_ahead(params, now) and params.delay.defer_by is None, result is None)",
        },
        raises=[Raises("OverflowError", mode="may",
                       when="params is not None and params.delay.next_execution_time is None"
                            " and periodic(params, now) and not dt_in_range(now + params.delay.defer_by)")],
    )
    db.prop_meta("C05", not_decided=[
        "'delivered within a bounded latency after T' and polling phase (timing / liveness)",
        "RabbitMQ head-of-queue TTL blocking (server side)",
    ], assumptions=["float results of datetime.timestamp() / time.time() treated as exact rationals (spacing 2.4e-7 s today, "
                    "far below the 1 ms resolution of the property)"])
