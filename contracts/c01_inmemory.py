"""C01 / C05 / C11 / C12 / C14 / C15 - the in-memory broker and its consumer, per operation.

Abstract view of one queue Q = broker.queues[name]: every message is in exactly one of
  Q.simple (waiting, FIFO) | Q.delayed[T] (delayed until T) | Q.processing (held) | Q.dead (dead-lettered).
Clauses are stated per element (DESIGN.md appendix B): `ghost.h` is the message the well-behaved client holds.
"""
from pyvc.spec import LoopInv, Raises

B = "repid/connections/in_memory/message_broker.py::InMemoryMessageBroker."
MSG = "Message@repid.connections.in_memory.utils"
Q = "self.queues[key.queue]"


def register(db):
    db.alias("InMemMessage", MSG)
    db.shape("DummyQueue", {"simple": "seq[InMemMessage]", "delayed": "map[datetime, seq[InMemMessage]]",
                            "dead": "seq[InMemMessage]", "processing": "set[InMemMessage]"})
    db.shape("InMemoryMessageBroker", {"queues": "hmap[str, DummyQueue]"})
    # well-behaved client (C01's hypothesis): it holds h, h has the key's id, and ids are distinct among held messages
    db.define("holds(q, h, key)", "h in q.processing and h.key.id_ == key.id_"
              " and forall(y, 'InMemMessage', implies(y in q.processing and y.key.id_ == key.id_, y == h))")
    LOOP = {0: LoopInv(header="for msg in q.processing",
                       invariant={"no_match_so_far": "forall(y, 'InMemMessage', implies(y in seen, y.key.id_ != key.id_))",
                                  "untouched_so_far": "q.processing == old(self.queues[key.queue].processing)"
                                                      " and q.simple == old(self.queues[key.queue].simple)"
                                                      " and q.dead == old(self.queues[key.queue].dead)"},
                       ghost={"visited": "seen"})}
    base = dict(ghost_init={"h": "sym[InMemMessage]"},
                requires=["key.queue in self.queues", f"holds({Q}, ghost.h, key)"], loops=LOOP, raises=[])
    db.contract(fn=B + "ack", serves=["C01", "C14"], **base,
                ensures={"removed": f"{Q}.processing == without(old({Q}.processing), ghost.h)"},
                modifies=[f"{Q}.processing"])
    db.contract(fn=B + "nack", serves=["C01", "C12"], **base,
                ensures={"removed": f"{Q}.processing == without(old({Q}.processing), ghost.h)",
                         "dead_lettered": f"{Q}.dead == appended(old({Q}.dead), ghost.h)"},
                modifies=[f"{Q}.processing", f"{Q}.dead"])
    db.symbolic_classes.add(MSG)

    # reject: back to the category it was taken from (ghost.taken_from is supplied by the history: the consumer's category)
    db.contract(fn=B + "reject", serves=["C01", "C05", "C15"], loops=LOOP, raises=[],
                ghost_init={"h": "sym[InMemMessage]", "taken_from": "MessageCategory", "due": "datetime"},
                requires=base["requires"],
                ensures={"released": f"{Q}.processing == without(old({Q}.processing), ghost.h)",
                         "normal_to_tail_of_waiting": f"implies(ghost.taken_from == MessageCategory.NORMAL,"
                                                      f" {Q}.simple == appended(old({Q}.simple), ghost.h) and {Q}.dead == old({Q}.dead))",
                         "dead_stays_dead": f"implies(ghost.taken_from == MessageCategory.DEAD,"
                                            f" {Q}.dead == appended(old({Q}.dead), ghost.h) and {Q}.simple == old({Q}.simple))",
                         "delayed_not_deliverable_early": f"implies(ghost.taken_from == MessageCategory.DELAYED,"
                                                          f" {Q}.simple == old({Q}.simple))"},
                modifies=[f"{Q}.processing", f"{Q}.simple", f"{Q}.dead", f"{Q}.delayed"])

    NEXT = "params.delay.next_execution_time"
    db.define("imm(params, now)", f"{NEXT} is None and not until_ahead(params, now) and params.delay.defer_by is None")
    db.contract(
        fn=B + "enqueue", serves=["C01", "C05", "C15"], clock=["now"], binds={"params": "Optional[Parameters]"},
        requires=["key.queue in self.queues", "params is not None", "P_next_ok(params)"],
        fresh={"m": ("sym[InMemMessage]",
                     f"{Q}.simple[len({Q}.simple) - 1] if imm(params, now) else"
                     f" ({Q}.delayed[{NEXT}][len({Q}.delayed[{NEXT}]) - 1] if {NEXT} is not None else old({Q}.simple)[0])")},
        ensures={
            "immediate_at_tail": f"implies(imm(params, now), {Q}.simple == appended(old({Q}.simple), m)"
                                 f" and {Q}.delayed == old({Q}.delayed))",
            "scheduled_only_in_delayed": f"implies({NEXT} is not None, {Q}.simple == old({Q}.simple) and {NEXT} in {Q}.delayed"
                                         f" and {Q}.delayed[{NEXT}] == appended(old({Q}.delayed.get({NEXT}, [])), m))",
            "deferred_never_waiting": f"implies(not imm(params, now), {Q}.simple == old({Q}.simple))",
            "carries_what_was_enqueued": f"implies(imm(params, now) or {NEXT} is not None,"
                                         " m.key == key and m.payload == payload and m.parameters == params)",
            "held_and_dead_untouched": f"{Q}.processing == old({Q}.processing) and {Q}.dead == old({Q}.dead)",
        },
        raises=[Raises("OverflowError", mode="may",
                       when="periodic(params, now) and params.delay.next_execution_time is None"
                            " and not dt_in_range(now + params.delay.defer_by)")],
        modifies=[f"{Q}.simple", f"{Q}.delayed"],
    )

    # ---- cancellation at any await of a single-effect operation: the old or the new state, nothing in between
    def cancellable(name, new_state):
        c = db.contracts[B + name]
        c.cancel_at_yield = True
        c.raises = list(c.raises) + [Raises(
            "CancelledError", mode="may",
            ensures={"old_or_new_state": f"({Q}.processing == old({Q}.processing) and {Q}.simple == old({Q}.simple)"
                                         f" and {Q}.dead == old({Q}.dead) and {Q}.delayed == old({Q}.delayed)) or ({new_state})"},
            modifies=list(c.modifies))]

    cancellable("ack", f"{Q}.processing == without(old({Q}.processing), ghost.h)")
    cancellable("nack", f"{Q}.processing == without(old({Q}.processing), ghost.h) and {Q}.dead == appended(old({Q}.dead), ghost.h)")
    cancellable("reject", f"{Q}.processing == without(old({Q}.processing), ghost.h)"
                          f" and ({Q}.simple == appended(old({Q}.simple), ghost.h) or {Q}.dead == appended(old({Q}.dead), ghost.h)"
                          f" or {Q}.delayed != old({Q}.delayed))")

    # ---- requeue: atomically replaces the held message by its new payload / parameters under the same id
    db.contract(
        fn=B + "requeue", serves=["C01", "C03", "C04"], clock=["now"], binds={"params": "Optional[Parameters]"},
        ghost_init={"h": "sym[InMemMessage]"},
        requires=["key.queue in self.queues", f"holds({Q}, ghost.h, key)", "params is not None", "P_next_ok(params)"],
        ensures={
            "old_message_released": f"{Q}.processing == without(old({Q}.processing), ghost.h)",
            "immediate_at_tail": f"implies(imm(params, now), len({Q}.simple) == len(old({Q}.simple)) + 1"
                                 f" and {Q}.simple[len({Q}.simple) - 1].key == key"
                                 f" and {Q}.simple[len({Q}.simple) - 1].payload == payload"
                                 f" and {Q}.simple[len({Q}.simple) - 1].parameters == params)",
            "deferred_never_waiting": f"implies(not imm(params, now), {Q}.simple == old({Q}.simple))",
            "scheduled_in_delayed": f"implies({NEXT} is not None, {NEXT} in {Q}.delayed and len({Q}.delayed[{NEXT}]) >= 1"
                                    f" and {Q}.delayed[{NEXT}][len({Q}.delayed[{NEXT}]) - 1].parameters == params)",
            "dead_untouched": f"{Q}.dead == old({Q}.dead)",
        },
        cancel_at_yield=True,
        raises=[Raises("OverflowError", mode="may",
                       when="periodic(params, now) and params.delay.next_execution_time is None"
                            " and not dt_in_range(now + params.delay.defer_by)",
                       modifies=[f"{Q}.processing"]),
                # interrupted anywhere: the message is still held, or it has been replaced - never gone
                Raises("CancelledError", mode="may",
                       ensures={"never_lost": f"ghost.h in {Q}.processing or {Q}.simple != old({Q}.simple)"
                                              f" or {Q}.delayed != old({Q}.delayed)"},
                       modifies=[f"{Q}.processing", f"{Q}.simple", f"{Q}.delayed"])],
        modifies=[f"{Q}.processing", f"{Q}.simple", f"{Q}.delayed"],
    )

    # ---- queue administration: declaring must never disturb a queue that already exists (every enqueue and every
    # consumer start goes through queue_declare first); flush/delete empty exactly the named queue
    QN = "self.queues[queue_name]"
    same = (f"queue_name in self.queues and {QN}.simple == old({QN}.simple) and {QN}.delayed == old({QN}.delayed)"
            f" and {QN}.dead == old({QN}.dead) and {QN}.processing == old({QN}.processing)")
    empty = f"len({QN}.simple) == 0 and len({QN}.dead) == 0 and len({QN}.processing) == 0 and len({QN}.delayed) == 0"
    db.contract(
        fn=B + "queue_declare", serves=["C01"], cancel_at_yield=True,
        # cancelled at either await: an existing queue still has every message, other queues are as they were
        raises=[Raises("CancelledError", mode="may",
                       ensures={"existing_queue_keeps_every_message": f"implies(old(queue_name in self.queues), {same})",
                                "other_queues_still_declared":
                                    "forall_str(k, implies(k != queue_name, (k in self.queues) == old(k in self.queues)))"},
                       modifies=["self.queues"])],
        lets={"q_before": "self.queues[queue_name]"},     # names the queue object of the pre-state (lazily created map entry)
        ensures={"declared": "queue_name in self.queues", "other_queues_still_declared": "forall_str(k, implies(k != queue_name, (k in self.queues) == old(k in self.queues)))",
                 "existing_queue_keeps_every_message": f"implies(old(queue_name in self.queues), {same})",
                 "new_queue_is_empty": f"implies(not old(queue_name in self.queues), {empty})"},
        modifies=["self.queues"],
    )
    db.contract(
        fn=B + "queue_flush", serves=["C01"], raises=[], lets={"q_before": "self.queues[queue_name]"},
        ensures={"existence_unchanged": "(queue_name in self.queues) == old(queue_name in self.queues)", "other_queues_still_declared": "forall_str(k, implies(k != queue_name, (k in self.queues) == old(k in self.queues)))",
                 "flushed_queue_is_empty": f"implies(queue_name in self.queues, {empty})"},
        modifies=["self.queues"],
    )
    db.contract(
        fn=B + "queue_delete", serves=["C01"], raises=[],
        ensures={"gone": "queue_name not in self.queues", "other_queues_still_declared": "forall_str(k, implies(k != queue_name, (k in self.queues) == old(k in self.queues)))"},
        modifies=["self.queues"],
    )


# ---------------------------------------------------------------------------------------------------------------
# C14 / C01 under interference: the single-copy invariant of one in-memory queue.  Every operation is verified a second
# time (variant 'interference') with NO assumption about what it holds: at each of its awaits other tasks may change
# the queue arbitrarily as long as they keep the invariant (rely), and the operation must keep it at every await and on
# return (guarantee).  By induction over the schedule the invariant holds in every reachable state of every
# interleaving of these operations: a message is never in two places, in particular never both waiting and held,
# and never waiting twice - so it cannot be handed to a second consumer while the first one still holds it.
def single_copy(q, old=False):
    w = (lambda e: f"old({e})") if old else (lambda e: e)  # noqa: E731
    S, P, X, D = w(f"{q}.simple"), w(f"{q}.processing"), w(f"{q}.dead"), w(f"{q}.delayed")
    nodup = lambda s: (f"forall_int(i, forall_int(j, implies(0 <= i and i < j and j < len({s}), at({s}, i) != at({s}, j))))")  # noqa: E731
    return {
        "waiting_once": nodup(S),
        "dead_once": nodup(X),
        "held_not_waiting": f"forall_int(i, implies(0 <= i and i < len({S}), at({S}, i) not in {P}))",
        "held_not_dead": f"forall_int(i, implies(0 <= i and i < len({X}), at({X}, i) not in {P}))",
        "waiting_not_dead": f"forall_int(i, forall_int(j, implies(0 <= i and i < len({S}) and 0 <= j and j < len({X}),"
                            f" at({S}, i) != at({X}, j))))",
        # delayed[T] lists: a delayed message is nowhere else, and in one delayed slot only
        "delayed_not_held": f"forall(T, 'datetime', forall_int(i, implies(T in {D} and 0 <= i and i < len({D}[T]),"
                            f" at({D}[T], i) not in {P})))",
        "delayed_not_waiting_or_dead": f"forall(T, 'datetime', forall_int(i, forall_int(j, implies(T in {D} and 0 <= i and i < len({D}[T]),"
                                       f" implies(0 <= j and j < len({S}), at({D}[T], i) != at({S}, j))"
                                       f" and implies(0 <= j and j < len({X}), at({D}[T], i) != at({X}, j))))))",
        "delayed_once": f"forall(T, 'datetime', forall(U, 'datetime', forall_int(i, forall_int(j, implies(T in {D} and U in {D}"
                        f" and 0 <= i and i < len({D}[T]) and 0 <= j and j < len({D}[U]) and (T != U or i != j),"
                        f" at({D}[T], i) != at({D}[U], j))))))",
    }


def finalize(db):
    inv = single_copy(Q)
    inv_local = single_copy("q")
    shared = [f"{Q}.simple", f"{Q}.processing", f"{Q}.dead", f"{Q}.delayed"]
    for op in ("ack", "nack", "reject", "enqueue", "requeue"):
        c = db.contracts[B + op]
        loop = {0: LoopInv(header="for msg in q.processing", invariant=dict(inv_local), ghost={"visited": "seen"})} \
            if op not in ("enqueue", "requeue") else {}
        c.variants = {
            "sequential": {},
            "interference": {"__override__": dict(
                serves=["C14"], seq_lemmas=True,
                requires=["key.queue in self.queues"] + list(inv.values())
                         + (["params is not None", "P_next_ok(params)"] if op in ("enqueue", "requeue") else []),
                ghost_init={}, fresh={}, ensures={f"single_copy:{k}": v for k, v in inv.items()},
                yield_inv={f"single_copy:{k}": v for k, v in inv.items()},
                shared=shared, rely=list(inv.values()), cancel_at_yield=True,
                modifies=shared,     # other tasks act on the queue during the awaits: the frame is the whole queue
                raises=[Raises(r.exc, mode=r.mode, when=r.when, ensures={f"single_copy:{k}": v for k, v in inv.items()}, modifies=shared)
                        for r in c.raises if r.exc != "CancelledError"]
                       + [Raises("CancelledError", mode="may", ensures={f"single_copy:{k}": v for k, v in inv.items()}, modifies=shared)],
                loops=loop, covers={"something_moved_or_removed": f"{Q}.processing != old({Q}.processing)"} if op not in ("enqueue",) else {})},
        }
