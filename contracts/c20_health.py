"""C20 - health endpoint: response selection, robustness of the request parser, status flips."""
from pyvc.spec import Raises

H = "repid/health_check_server.py::"
R = "repid/_runner.py::_Runner."


def register(db):
    db.shape("_HttpServerProtocol", {"endpoint_name": "str", "status": "HealthCheckStatus", "transport": "WriteTransport"})
    db.shape("WriteTransport", {})
    db.contract(fn="WriteTransport.write", assumed=True, params=["self", "data"], effects=[("io", "('write', data)")])
    db.contract(fn="WriteTransport.close", assumed=True, params=["self"], effects=[("io", "('close',)")])
    db.ufun("http_date", ["float"], "str")
    db.contract(fn="format_date_time", assumed=True, params=["timestamp"], returns="str",
                ensures={"det": "result == http_date(timestamp)"}, note="wsgiref.handlers.format_date_time: total")
    db.define("hc_content(self, method, path)",
              "(str(self.status.value) + ' ' + self.status.name) if (method == 'GET' and path == self.endpoint_name)"
              " else '404 Not Found'")
    db.contract(
        fn=H + "_HttpServerProtocol.handle_request", serves=["C20"], clock=["now"],
        ensures={
            "status_line": "result.startswith('HTTP/1.1 ' + hc_content(self, method, path) + '\\r\\n')",
            "body": "result.endswith('\\r\\n\\r\\n' + hc_content(self, method, path))",
            "content_length": "('\\r\\nContent-Length: ' + str(len(hc_content(self, method, path))) + '\\r\\n') in result",
            "ok_is_200": "implies(method == 'GET' and path == self.endpoint_name and self.status == HealthCheckStatus.OK,"
                         " hc_content(self, method, path) == '200 OK')",
            "unhealthy_is_503": "implies(method == 'GET' and path == self.endpoint_name and self.status == HealthCheckStatus.UNHEALTHY,"
                                " hc_content(self, method, path) == '503 UNHEALTHY')",
            "else_404": "implies(not (method == 'GET' and path == self.endpoint_name), hc_content(self, method, path) == '404 Not Found')",
        },
        raises=[], modifies=[],
    )
    db.contract(
        fn=H + "_HttpServerProtocol.data_received", serves=["C20"], ghost_init={"io": "events"},
        ensures={"one_write_then_close": "len(io) == 2 and io[0][0] == 'write' and io[1][0] == 'close'"},
        # for ALL byte strings: the only failures are ValueErrors (UnicodeDecodeError is one), before anything is written
        raises=[Raises("ValueError", mode="may", anysub=True, ensures={"nothing_written": "len(io) == 0"})],
        modifies=[],     # frame: the protocol's status and endpoint are never changed by request bytes
        trace_exact=False,
    )
    db.shape("HealthCheckServer", {"server_settings": "HealthCheckServerSettings", "_server": "opaque",
                                   "_health_status": "HealthCheckStatus"})
    db.contract(fn=H + "HealthCheckServer.health_status", serves=["C20"], result_expr="self._health_status")
    db.contract(fn=H + "HealthCheckServer.health_status.setter", serves=["C20"],
                ensures={"set": "self._health_status == new_health_status"}, modifies=["self._health_status"],
                returns="HealthCheckStatus")
    db.prop_meta("C20", not_decided=[
        "sockets: the port is open exactly while the worker runs (loop.create_server / Server.close are outside the subset)",
        "many connections, fragmentation across packets (each data_received call is decided for all byte strings)",
        "interference with job processing (timing)",
    ], assumptions=[
        "asyncio closes the connection and keeps serving when data_received raises",
        "each protocol instance is created with the then-current status (lambda in HealthCheckServer.start)",
    ])
