"""C19 - schedule arithmetic (retry back-off, next execution time, expiry)."""
from pyvc.spec import Raises

POLICY = "repid/retry_policy.py::default_retry_policy_factory.<locals>.inner"
NEXT = "repid/data/_parameters.py::Parameters.compute_next_execution_time"


def register(db):
    db.define("backoff_spec(n, lo, hi, mult, maxexp)",
              "timedelta(seconds=max(lo, min(mult * 2 ** min(n, maxexp), hi)))")
    db.define("policy_params_ok(lo, hi, mult, maxexp)",
              "lo >= 1 and hi >= 1 and mult >= 1 and maxexp >= 1 and lo <= hi and hi <= 10 ** 9")
    db.contract(
        fn=POLICY, serves=["C19", "C04"],
        binds={"min_backoff": "int", "max_backoff": "int", "multiplier": "int", "max_exponent": "int",
               "retry_number": "int"},
        requires=["retry_number >= 1", "policy_params_ok(min_backoff, max_backoff, multiplier, max_exponent)"],
        ensures={
            "lower": "result >= timedelta(seconds=min_backoff)",
            "upper": "result <= timedelta(seconds=max_backoff)",
            "spec": "result == backoff_spec(retry_number, min_backoff, max_backoff, multiplier, max_exponent)",
        },
        raises=[],   # in particular no OverflowError and no float exponentiation
        replay="policy",
    )
    db.lemmas.append(dict(
        name="backoff_monotone", serves=["C19"],
        vars={"n1": "int", "n2": "int", "lo": "int", "hi": "int", "mult": "int", "maxexp": "int"},
        requires=["1 <= n1", "n1 <= n2", "policy_params_ok(lo, hi, mult, maxexp)"],
        ensures="backoff_spec(n1, lo, hi, mult, maxexp) <= backoff_spec(n2, lo, hi, mult, maxexp)",
        note="monotonicity of the default policy, over the spec function the body is proved equal to",
    ))

    # ---- next execution time
    # "its time base": the previously scheduled time when there is one, else the creation timestamp
    db.define("time_base(P)", "P.delay.next_execution_time if P.delay.next_execution_time is not None else P.timestamp")
    db.define("until_ahead(P, now)", "P.delay.delay_until is not None and P.delay.delay_until > now")
    db.define("periodic(P, now)", "not until_ahead(P, now) and P.delay.defer_by is not None")
    db.contract(
        fn=NEXT, serves=["C19", "C06", "C05"],
        clock=["now"],
        requires=["P_next_ok(self)"],
        ensures={
            "until": "implies(until_ahead(self, now), result is not None and result == self.delay.delay_until)",
            "grid": "implies(periodic(self, now), (result - time_base(self)) % self.delay.defer_by == timedelta(0))",
            "window_lo": "implies(periodic(self, now), result is not None and now < result)",
            "window_hi": "implies(periodic(self, now), result <= now + self.delay.defer_by)",
            "none": "implies(not until_ahead(self, now) and self.delay.defer_by is None, result is None)",
        },
        # 'now + period' beyond datetime.max (year 9999) is not representable: CPython raises OverflowError
        raises=[Raises("OverflowError", mode="may",
                       when="periodic(self, now) and not dt_in_range(now + self.delay.defer_by)")],
        replay="next_time",
    )
    db.define("P_next_ok(P)",
              "(P.delay.defer_by is None or P.delay.defer_by >= timedelta(seconds=1)) and P.delay.cron is None")

    # ---- expiry
    for key, cls in [("repid/data/_parameters.py::Parameters.is_overdue", None),
                     ("repid/data/_buckets.py::ArgsBucket.is_overdue", None),
                     ("repid/data/_buckets.py::ResultBucket.is_overdue", None),
                     ("repid/job.py::Job.is_overdue", None)]:
        db.contract(
            fn=key, serves=["C19", "C12"],
            clock=["now"],
            requires=["self.ttl is None or dt_in_range(self.timestamp + self.ttl)"],
            ensures={"expiry": "result == (self.ttl is not None and now > self.timestamp + self.ttl)"},
            raises=[],
            replay="is_overdue",
        )
    db.shape("Job", {"ttl": "Optional[timedelta]", "timestamp": "datetime"})
    db.lemmas.append(dict(name="pow2_pos", builtin="pow2_pos", serves=["C19"],
                          note="pow2(n) >= 1 for n >= 0, by induction; ground instances are used by the engine"))
    db.lemmas.append(dict(name="pow2_mono", builtin="pow2_mono", serves=["C19"],
                          note="0 <= a <= b -> pow2(a) <= pow2(b), by induction on b"))
    db.prop_meta("C19", not_decided=[
        "the cron branch of compute_next_execution_time (croniter is not installed here: the branch raises ImportError)",
    ], assumptions=["timedelta(seconds=int) and datetime arithmetic are exact integer-microsecond arithmetic (CPython)"])
