"""C03 - stopping or killing a worker loses no message: runner side (cancellation clauses) and shutdown order."""
from pyvc.spec import Raises

R = "repid/_runner.py::_Runner."


def finalize(db):
    # ---- _run_consumer cancelled at any of its awaits: a message it already obtained must not be dropped
    c = db.contracts[R + "_run_consumer"]
    c.cancel_at_yield = True
    c.serves = sorted(set(c.serves) | {"C03"})
    shared_plus = list(c.modifies)
    c.raises = list(c.raises) + [Raises(
        "CancelledError", mode="may", modifies=shared_plus,
        ensures={"obtained_message_not_dropped": "ghost.held == 0"})]
    c.clause_props = dict(c.clause_props)
    c.clause_props["raises-*:CancelledError*"] = ["C03"]

    db.contract(
        fn=R + "stop_wait_and_cancel", serves=["C03"],
        shared=["self.stop_consume_event._flag", "self.cancel_event._flag"],
        rely=["implies(old(self.stop_consume_event._flag), self.stop_consume_event._flag)",
              "implies(old(self.cancel_event._flag), self.cancel_event._flag)"],
        # consumption is told to stop before the grace period starts; cancellation only after it
        yield_inv={"stop_requested_during_grace_period": "self.stop_consume_event._flag"},
        ensures={"both_set": "self.stop_consume_event._flag and self.cancel_event._flag"},
        raises=[], modifies=["self.stop_consume_event._flag", "self.cancel_event._flag"],
    )
    db.shape("_Runner", {"_wait_for_cancel_task": "Optional[Task]"})
    db.contract(fn="Task.cancel", assumed=True, params=["self"], returns="bool")
    db.contract(fn="TaskSet.__bool__", assumed=True, params=["self"], returns="bool")
    db.contract(
        fn=R + "finish_gracefully", serves=["C03"], binds={"timeout": "float"},
        shared=["self.stop_consume_event._flag", "self.cancel_event._flag"],
        rely=["implies(old(self.stop_consume_event._flag), self.stop_consume_event._flag)",
              "implies(old(self.cancel_event._flag), self.cancel_event._flag)"],
        yield_inv={"stop_requested_while_waiting": "self.stop_consume_event._flag"},
        ensures={"both_set": "self.stop_consume_event._flag and self.cancel_event._flag"},
        raises=[], modifies=["self.stop_consume_event._flag", "self.cancel_event._flag"],
    )
    db.prop_meta("C03", not_decided=[
        "'returns within the graceful period plus a fixed slack' (real time)",
        "process death inside a Redis transaction; Redis maintenance / background consumer (not yet under contract)",
        "Worker.run call order (gather over generator expressions is outside the subset)",
    ])
