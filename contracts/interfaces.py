"""Assumed contracts of the abstract collaborators (broker / bucket broker interfaces, user callables).

Every verified caller sees these operations only through the clauses below.  The three broker
implementations are verified against refinements of the same clauses in c01_*.py, so the
interface contracts are assumptions only for brokers outside the tree.

Ghost event list `trace`: one tuple per broker / bucket-broker call, in call order:
  ('ack', key) ('nack', key) ('reject', key) ('requeue', key, payload, params)
  ('enqueue', key, payload, params) ('store_bucket', id_, bucket) ('get_bucket', id_)
`flag('broker_fails')`: ghost switch; when set, a broker call may raise any Exception *without effect*.
"""
from pyvc.spec import Raises

MAYFAIL = [Raises("Exception", mode="may", anysub=True, when="flag('broker_fails')")]
STOREFAIL = [Raises("Exception", mode="may", anysub=True, when="flag('store_fails')")]


def register(db):
    db.symbolic_classes.update({"RetryPolicyT"})
    db.shape("_Processor", {"_conn": "Connection", "_processed": "int"})
    db.ufun("policy", ["RetryPolicyT", "int"], "timedelta")

    for op in ("ack", "nack", "reject"):
        db.contract(fn=f"MessageBrokerT.{op}", assumed=True, is_async=True, params=["self", "key"],
                    effects=[("trace", f"('{op}', key)")], raises=list(MAYFAIL),
                    note="interface contract: exactly one broker-side disposition per call")
    for op in ("requeue", "enqueue"):
        db.contract(fn=f"MessageBrokerT.{op}", assumed=True, is_async=True, params=["self", "key", "payload", "params"],
                    defaults={"payload": "''", "params": "None"},
                    effects=[("trace", f"('{op}', key, payload, params)")], raises=list(MAYFAIL),
                    note="interface contract")
    db.contract(fn="BucketBrokerT.store_bucket", assumed=True, is_async=True, params=["self", "id_", "payload"],
                effects=[("trace", "('store_bucket', id_, payload)")], raises=list(STOREFAIL),
                note="interface contract: a failing store has no effect")
    db.contract(fn="BucketBrokerT.get_bucket", assumed=True, is_async=True, params=["self", "id_"],
                returns="Optional[ArgsBucket]", raises=list(STOREFAIL), note="interface contract")
    db.shape("BucketBrokerT", {"BUCKET_CLASS": "opaque"})

    # user supplied retry policy: a deterministic function of the retry number that returns a timedelta
    db.contract(fn="RetryPolicyT.__call__", assumed=True, params=["self", "retry_number"], defaults={"retry_number": "1"},
                returns="timedelta", ensures={"det": "result == policy(self, retry_number)"},
                note="user retry policy: total, deterministic, returns a timedelta")
