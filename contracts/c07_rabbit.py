"""C07 / C11 / C12 / C05 / C01 - RabbitMQ: what on_new_message hands to the worker, tag bookkeeping, delayed publish."""
from pyvc.spec import Raises

C = "repid/connections/rabbitmq/consumer.py::_RabbitConsumer."
B = "repid/connections/rabbitmq/message_broker.py::RabbitMessageBroker."


def register(db):
    db.shape("DeliveredMessage", {"header": "AmqpHeader", "delivery_tag": "Optional[int]", "body": "bytes"})
    db.shape("AmqpHeader", {"properties": "AmqpProps"})
    db.shape("AmqpProps", {"message_id": "Optional[str]", "headers": "Optional[AmqpHeaders]", "priority": "Optional[int]"})
    db.shape("AmqpHeaders", {"topic": "Optional[str]", "queue": "Optional[str]"})
    db.contract(fn="AmqpHeaders.get", assumed=True, params=["self", "key", "default"], defaults={"default": "None"},
                returns="Optional[str]",
                ensures={"topic": "implies(key == 'topic', result == (self.topic if self.topic is not None else default))",
                         "queue": "implies(key == 'queue', result == (self.queue if self.queue is not None else default))"},
                note="AMQP headers table as a dict with the two keys repid writes")
    db.shape("AmqpChannel", {})
    for op, params, defaults in (("basic_reject", ["self", "delivery_tag", "requeue"], {"requeue": "True"}),
                                 ("basic_nack", ["self", "delivery_tag", "multiple", "requeue"], {"multiple": "False", "requeue": "True"}),
                                 ("basic_ack", ["self", "delivery_tag", "multiple"], {"multiple": "False"})):
        db.contract(fn=f"AmqpChannel.{op}", assumed=True, is_async=True, params=params, defaults=defaults,
                    effects=[("amqp", f"('{op}', delivery_tag" + (", requeue)" if "requeue" in params else ")"))],
                    note="aiormq channel method: one AMQP frame")
    db.shape("RabbitMessageBroker", {"dsn": "str", "qnc": "func[RabbitQnc]", "idd": "func[DurableDecider]",
                                     "_id_to_delivery_tag": "map[str, int]"})
    db.contract(fn=B + "_channel", assumed=True, returns="AmqpChannel",
                note="the open channel (raises ConnectionError when closed: outside the decided part)")
    db.shape("_RabbitConsumer", {"broker": "RabbitMessageBroker", "queue_name": "str", "topics": "Optional[set[str]]",
                                 "queue": "LocalQueue", "max_unacked_messages": "int", "category": "MessageCategory",
                                 "server_side_cancel_event": "Event", "_consumer_tag": "Optional[str]",
                                 "_RabbitConsumer__is_paused": "bool", "_RabbitConsumer__is_consuming": "bool"})
    db.shape("LocalQueue", {"n": "int"})
    db.contract(fn="LocalQueue.put", assumed=True, is_async=True, params=["self", "item"], modifies=["self.n"],
                effects=[("queued", "item")], ensures={"n": "self.n == old(self.n) + 1"},
                note="unbounded asyncio.Queue.put: appends")

    PROPS = "message.header.properties"
    REFUSING = "self._RabbitConsumer__is_paused or not self._RabbitConsumer__is_consuming"
    TOPIC = f"({PROPS}.headers.topic if {PROPS}.headers is not None else None)"
    FOREIGN = f"(self.topics is not None and nonempty(self.topics) and {TOPIC} not in self.topics)"
    EARLY = f"({REFUSING}) or {TOPIC} is None or {FOREIGN}"
    db.contract(
        fn=C + "on_new_message", serves=["C07", "C11", "C12"], binds={"message": "DeliveredMessage"},
        ghost_init={"amqp": "events", "decoded": "Parameters", "queued": "events"},
        requires=[f"{PROPS}.message_id is not None", "message.delivery_tag is not None"],
        ensures={
            # C11: a paused consumer and a foreign topic give the message back to the broker untouched
            "refused_goes_back": f"implies({EARLY}, amqp == (('basic_reject', message.delivery_tag, True),)"
                                 f" and len(queued) == 0"
                                 f" and self.broker._id_to_delivery_tag == old(self.broker._id_to_delivery_tag))",
            # C12: expired and NORMAL -> dead-letter exchange, not handed to the worker
            "expired_dead_lettered": f"implies(not ({EARLY}) and self.category == MessageCategory.NORMAL"
                                     f" and ghost.decoded.ttl is not None and last_now() > ghost.decoded.timestamp + ghost.decoded.ttl,"
                                     f" amqp == (('basic_nack', message.delivery_tag, False),) and len(queued) == 0)",
            "live_is_queued": f"implies(not ({EARLY}) and not (self.category == MessageCategory.NORMAL"
                              f" and ghost.decoded.ttl is not None and last_now() > ghost.decoded.timestamp + ghost.decoded.ttl),"
                              f" len(amqp) == 0 and len(queued) == 1"
                              f" and self.broker._id_to_delivery_tag[{PROPS}.message_id] == message.delivery_tag)",
            # C07: the worker receives the id, topic, queue, priority and parameters that were published
            "received_as_sent": f"implies(len(queued) == 1, queued[0][0].id_ == {PROPS}.message_id and queued[0][0].topic == {TOPIC}"
                                f" and queued[0][0].queue == ({PROPS}.headers.queue if {PROPS}.headers.queue is not None else 'default')"
                                f" and queued[0][0].priority == ({PROPS}.priority if {PROPS}.priority is not None else PrioritiesT.MEDIUM.value)"
                                f" and queued[0][2] == ghost.decoded)",
        },
        # malformed bodies / headers (json, parameters, invalid names) raise; nothing is queued then.  NOTE: when the
        # names in the headers fail RoutingKey validation the delivery tag has already been remembered (tag map modified).
        raises=[Raises("Exception", mode="may", anysub=True, modifies=["ghost.decoded", "self.broker._id_to_delivery_tag"],
                       ensures={"nothing_queued": "len(queued) == 0"})],
        modifies=["self.queue.n", "self.broker._id_to_delivery_tag", "ghost.decoded"], trace_exact=False,
    )


def finalize(db):
    c = db.contracts["repid/data/_parameters.py::Parameters.decode"]
    c.returns = "Parameters"
    c.binds = {"data": "opaque"}
    c.modifies = ["ghost.decoded"]
    c.ensures = {"remembered": "ghost.decoded == result",
                 "ttl_representable": "result.ttl is None or dt_in_range(result.timestamp + result.ttl)",
                 # what is stored was produced from valid parameters (Job.__init__ validation; croniter absent)
                 "stored_parameters_were_valid": "P_next_ok(result)"}
    c.raises = [Raises("Exception", mode="may", anysub=True)]
    c.note = "callers outside the round-trip harness see decode() through these clauses (the harness verifies the body)"


def register_broker(db):
    TAGS = "self._id_to_delivery_tag"
    for op, ev in (("ack", "('basic_ack', old(%s)[key.id_])"), ("nack", "('basic_nack', old(%s)[key.id_], False)"),
                   ("reject", "('basic_reject', old(%s)[key.id_], True)")):
        db.contract(
            fn=B + op, serves=["C01", "C14"], ghost_init={"amqp": "events"},
            # exactly one AMQP disposition for the delivery tag of this message id, and the tag is forgotten
            effects=[("amqp", ev % TAGS, f"key.id_ in {TAGS}")],
            ensures={"tag_forgotten": f"key.id_ not in {TAGS}",
                     "other_tags_kept": f"forall_str(i, implies(i != key.id_, (i in {TAGS}) == (i in old({TAGS}))"
                                        f" and implies(i in {TAGS}, {TAGS}[i] == old({TAGS})[i])))"},
            raises=[], modifies=[TAGS],
        )
    db.contract(fn="RabbitQnc.__call__", assumed=True, params=["fn", "queue_name", "delayed", "dead"],
                defaults={"delayed": "False", "dead": "False"}, returns="str",
                ensures={"det": "result == rabbit_queue(queue_name, delayed, dead)"})
    db.ufun("rabbit_queue", ["str", "bool", "bool"], "str")
    db.contract(fn="DurableDecider.__call__", assumed=True, params=["fn", "key"], returns="bool")
    db.shape("BasicAck", {})
    db.shape("AmqpProperties", {"message_id": "str", "priority": "int", "expiration": "Optional[str]", "delivery_mode": "int",
                                "timestamp": "Optional[datetime]", "headers": "cdict"})
    db.contract(fn="AmqpChannel.basic_publish", assumed=True, is_async=True,
                params=["self", "body", "routing_key", "properties", "mandatory"], defaults={"mandatory": "False"},
                returns="BasicAck", effects=[("amqp", "('basic_publish', routing_key, properties.expiration, properties.priority, properties.message_id)")],
                note="publisher confirms: returns Basic.Ack when the broker took the message")
    db.contract(fn="repid/connections/rabbitmq/utils.py::durable_message_decider", assumed=True, returns="bool")
    db.contract(
        fn=B + "enqueue", serves=["C05", "C07"], clock=["now", "now2"], binds={"params": "Optional[Parameters]"},
        ghost_init={"amqp": "events"},
        requires=["params is not None", "P_next_ok(params)", "params.delay.next_execution_time is not None"],
        lets={"T": "params.delay.next_execution_time"},
        ensures={
            "one_publish": "len(amqp) == 1 and amqp[0][0] == 'basic_publish'",
            "id_and_priority_on_the_wire": "amqp[0][3] == key.priority and amqp[0][4] == key.id_",
            # C05: due in the future -> delayed queue with a TTL that cannot expire before T - 1 ms
            "future_goes_to_delayed_queue": "implies(us(T) - us(now2) >= 1000, amqp[0][1] == rabbit_queue(key.queue, True, False)"
                                            " and amqp[0][2] is not None)",
            "ttl_not_early": "implies(amqp[0][2] is not None, exists_int(ms, ms > 0 and amqp[0][2] == str(ms)"
                             " and us(now2) + ms * 1000 > us(T) - 1000 and us(now2) + ms * 1000 <= us(T)))",
            "due_goes_to_main_queue": "implies(us(T) - us(now2) < 1000, amqp[0][1] == rabbit_queue(key.queue, False, False)"
                                      " and amqp[0][2] is None)",
        },
        raises=[], modifies=[], trace_exact=False,
    )


_reg_r = register


def register(db):  # noqa: F811
    _reg_r(db)
    register_broker(db)
