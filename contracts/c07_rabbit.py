"""C07 / C11 / C12 / C05 / C01 - RabbitMQ: what on_new_message hands to the worker, tag bookkeeping, delayed publish."""
from pyvc.spec import Raises

C = "repid/connections/rabbitmq/consumer.py::_RabbitConsumer."
B = "repid/connections/rabbitmq/message_broker.py::RabbitMessageBroker."


def register(db):
    db.shape("DeliveredMessage", {"header": "AmqpHeader", "delivery_tag": "Optional[int]", "body": "bytes"})
    db.shape("AmqpHeader", {"properties": "AmqpProps"})
    db.shape("AmqpProps", {"message_id": "Optional[str]", "headers": "Optional[AmqpHeaders]", "priority": "Optional[int]"})
    db.shape("AmqpHeaders", {"topic": "Optional[str]", "queue": "Optional[str]"})
    db.contract(fn="AmqpHeaders.get", assumed=True, params=["self", "key", "default"], defaults={"default": "None"},
                returns="Optional[str]",
                ensures={"topic": "implies(key == 'topic', result == (self.topic if self.topic is not None else default))",
                         "queue": "implies(key == 'queue', result == (self.queue if self.queue is not None else default))"},
                note="AMQP headers table as a dict with the two keys repid writes")
    db.shape("AmqpChannel", {})
    for op, params, defaults in (("basic_reject", ["self", "delivery_tag", "requeue"], {"requeue": "True"}),
                                 ("basic_nack", ["self", "delivery_tag", "multiple", "requeue"], {"multiple": "False", "requeue": "True"}),
                                 ("basic_ack", ["self", "delivery_tag", "multiple"], {"multiple": "False"})):
        db.contract(fn=f"AmqpChannel.{op}", assumed=True, is_async=True, params=params, defaults=defaults,
                    effects=[("amqp", f"('{op}', delivery_tag" + (", requeue)" if "requeue" in params else ")"))],
                    note="aiormq channel method: one AMQP frame")
    db.shape("RabbitMessageBroker", {"dsn": "str", "qnc": "func[RabbitQnc]", "idd": "opaque",
                                     "_id_to_delivery_tag": "map[str, int]"})
    db.contract(fn=B + "_channel", assumed=True, returns="AmqpChannel",
                note="the open channel (raises ConnectionError when closed: outside the decided part)")
    db.shape("_RabbitConsumer", {"broker": "RabbitMessageBroker", "queue_name": "str", "topics": "Optional[set[str]]",
                                 "queue": "LocalQueue", "max_unacked_messages": "int", "category": "MessageCategory",
                                 "server_side_cancel_event": "Event", "_consumer_tag": "Optional[str]",
                                 "_RabbitConsumer__is_paused": "bool", "_RabbitConsumer__is_consuming": "bool"})
    db.shape("LocalQueue", {"n": "int"})
    db.contract(fn="LocalQueue.put", assumed=True, is_async=True, params=["self", "item"], modifies=["self.n"],
                effects=[("queued", "item")], ensures={"n": "self.n == old(self.n) + 1"},
                note="unbounded asyncio.Queue.put: appends")

    PROPS = "message.header.properties"
    REFUSING = "self._RabbitConsumer__is_paused or not self._RabbitConsumer__is_consuming"
    TOPIC = f"({PROPS}.headers.topic if {PROPS}.headers is not None else None)"
    FOREIGN = f"(self.topics is not None and nonempty(self.topics) and {TOPIC} not in self.topics)"
    EARLY = f"({REFUSING}) or {TOPIC} is None or {FOREIGN}"
    db.contract(
        fn=C + "on_new_message", serves=["C07", "C11", "C12"], binds={"message": "DeliveredMessage"},
        ghost_init={"amqp": "events", "decoded": "Parameters", "queued": "events"},
        requires=[f"{PROPS}.message_id is not None", "message.delivery_tag is not None"],
        ensures={
            # C11: a paused consumer and a foreign topic give the message back to the broker untouched
            "refused_goes_back": f"implies({EARLY}, amqp == (('basic_reject', message.delivery_tag, True),)"
                                 f" and len(queued) == 0"
                                 f" and self.broker._id_to_delivery_tag == old(self.broker._id_to_delivery_tag))",
            # C12: expired and NORMAL -> dead-letter exchange, not handed to the worker
            "expired_dead_lettered": f"implies(not ({EARLY}) and self.category == MessageCategory.NORMAL"
                                     f" and ghost.decoded.ttl is not None and last_now() > ghost.decoded.timestamp + ghost.decoded.ttl,"
                                     f" amqp == (('basic_nack', message.delivery_tag, False),) and len(queued) == 0)",
            "live_is_queued": f"implies(not ({EARLY}) and not (self.category == MessageCategory.NORMAL"
                              f" and ghost.decoded.ttl is not None and last_now() > ghost.decoded.timestamp + ghost.decoded.ttl),"
                              f" len(amqp) == 0 and len(queued) == 1"
                              f" and self.broker._id_to_delivery_tag[{PROPS}.message_id] == message.delivery_tag)",
            # C07: the worker receives the id, topic, queue, priority and parameters that were published
            "received_as_sent": f"implies(len(queued) == 1, queued[0][0].id_ == {PROPS}.message_id and queued[0][0].topic == {TOPIC}"
                                f" and queued[0][0].queue == ({PROPS}.headers.queue if {PROPS}.headers.queue is not None else 'default')"
                                f" and queued[0][0].priority == ({PROPS}.priority if {PROPS}.priority is not None else PrioritiesT.MEDIUM.value)"
                                f" and queued[0][2] == ghost.decoded)",
        },
        # malformed bodies / headers (json, parameters, invalid names) raise; nothing is queued then.  NOTE: when the
        # names in the headers fail RoutingKey validation the delivery tag has already been remembered (tag map modified).
        raises=[Raises("Exception", mode="may", anysub=True, modifies=["ghost.decoded", "self.broker._id_to_delivery_tag"],
                       ensures={"nothing_queued": "len(queued) == 0"})],
        modifies=["self.queue.n", "self.broker._id_to_delivery_tag", "ghost.decoded"], trace_exact=False,
    )


def finalize(db):
    c = db.contracts["repid/data/_parameters.py::Parameters.decode"]
    c.returns = "Parameters"
    c.binds = {"data": "opaque"}
    c.modifies = ["ghost.decoded"]
    c.ensures = {"remembered": "ghost.decoded == result",
                 "ttl_representable": "result.ttl is None or dt_in_range(result.timestamp + result.ttl)"}
    c.raises = [Raises("Exception", mode="may", anysub=True)]
    c.note = "callers outside the round-trip harness see decode() through these clauses (the harness verifies the body)"
