"""C08 - argument binding under every converter (BasicConverter, PydanticConverter, DefaultConverter).

The signature of the actor is the array `params_of(fn)` of parameter records (contracts/c18_depends.py).  Facts of
Python assumed about it (inspect.Signature enforces them): names are distinct, kinds are in the order
positional-only <= positional-or-keyword <= *args <= keyword-only <= **kwargs, at most one *args and one **kwargs.
Hence the positional-only parameters are a PREFIX of the signature, which is how the order of positional arguments is
stated without counting.
"""
from pyvc.spec import LoopInv, Raises

BC = "repid/converter.py::BasicConverter."
PS = "signature.parameters.seq"
EMPTY = "inspect.Parameter.empty"
PLAIN = "(p.kind in (1, 3) and dep_of(p.annotation) is None)"


def register(db):
    db.shape("BasicConverter", {"fn": "opaque", "args": "omap[str, opaque]", "kwargs": "map[str, opaque]",
                                "dependency_kwargs": "map[str, DependencyT]", "all_args": "bool", "all_kwargs": "bool"})
    db.define("plain_kw(p)", PLAIN)
    db.define("dep_kw(p)", "(p.kind in (1, 3) and dep_of(p.annotation) is not None)")
    # what BasicConverter.__init__ derives from a signature ps (R = the representation relation used by convert_inputs)
    db.define("positional_prefix(a, ps, n)",
              "len(okeys(a)) <= n"
              " and forall_int(j, implies(0 <= j and j < len(okeys(a)), ps[j].kind == 0 and at(okeys(a), j) == ps[j].name"
              "     and a[ps[j].name] == ps[j].default))"
              " and forall_int(j, implies(0 <= j and j < n and ps[j].kind == 0, j < len(okeys(a))))")
    db.define("plain_keywords(kw, ps, n, src)",
              "forall_int(j, implies(0 <= j and j < n and plain_kw(ps[j]), ps[j].name in kw and kw[ps[j].name] == ps[j].default))"
              " and forall_str(m, implies(m in kw, m in src and 0 <= src[m] and src[m] < n and ps[src[m]].name == m and plain_kw(ps[src[m]])))")
    db.define("plain_keywords_ex(kw, ps, n)",
              "forall_int(j, implies(0 <= j and j < n and plain_kw(ps[j]), ps[j].name in kw and kw[ps[j].name] == ps[j].default))"
              " and forall_str(m, implies(m in kw, exists_int(j, 0 <= j and j < n and ps[j].name == m and plain_kw(ps[j]))))")
    db.define("dep_keywords(dk, ps, n, src)",
              "forall_int(j, implies(0 <= j and j < n and dep_kw(ps[j]), ps[j].name in dk and dk[ps[j].name] == dep_of(ps[j].annotation)))"
              " and forall_str(m, implies(m in dk, m in src and 0 <= src[m] and src[m] < n and ps[src[m]].name == m and dep_kw(ps[src[m]])))")


def finalize(db):
    sig = db.contracts["inspect.signature"]
    sig.ensures = dict(sig.ensures)
    S = "result.parameters.seq"
    sig.ensures["kinds_in_order"] = (f"forall_int(a, forall_int(b, implies(0 <= a and a < b and b < len({S}), {S}[a].kind <= {S}[b].kind"
                                     f" and not ({S}[a].kind == 2 and {S}[b].kind == 2) and not ({S}[a].kind == 4 and {S}[b].kind == 4))))")
    sig.ensures["kinds_are_kinds"] = f"forall_int(a, implies(0 <= a and a < len({S}), 0 <= {S}[a].kind and {S}[a].kind <= 4))"

    LOOP = {0: LoopInv(
        header="for p in signature.parameters.values()",
        ghost={"index": "i",
               "vars": {"srck": ("map", "empty_map('str', 'int')"), "srcd": ("map", "empty_map('str', 'int')")},
               "hints": [f"forall_int(j, implies(0 <= j and j < i - 1, {PS}[j].name != {PS}[i - 1].name))"],
               "update": {"srck": f"map_with_if(srck, plain_kw({PS}[i - 1]), {PS}[i - 1].name, i - 1)",
                          "srcd": f"map_with_if(srcd, dep_kw({PS}[i - 1]), {PS}[i - 1].name, i - 1)"}},
        invariant={
            "positional_only_prefix": f"positional_prefix(self.args, {PS}, i)",
            "plain_keywords": f"plain_keywords(self.kwargs, {PS}, i, srck)",
            "dependency_keywords": f"dep_keywords(self.dependency_kwargs, {PS}, i, srcd)",
            "var_positional_seen": f"self.all_args == exists_int(j, 0 <= j and j < i and {PS}[j].kind == 2)",
            "var_keyword_seen": f"self.all_kwargs == exists_int(j, 0 <= j and j < i and {PS}[j].kind == 4)",
            "no_positional_only_dependency": f"forall_int(j, implies(0 <= j and j < i, not ({PS}[j].kind == 0 and dep_of({PS}[j].annotation) is not None)))",
            "same_signature": f"same_arr({PS}, params_of(fn))",
        },
        modifies={"self.args": "omap[str, opaque]", "self.kwargs": "map[str, opaque]",
                  "self.dependency_kwargs": "map[str, DependencyT]", "self.all_args": "bool", "self.all_kwargs": "bool",
                  "srck": "map[str, int]", "srcd": "map[str, int]"})}
    P = "params_of(fn)"
    db.contract(
        fn=BC + "__init__", serves=["C08"], binds={"fn": "opaque"}, loops=LOOP,
        fresh={"wk": ("map[str, int]", "local('srck', None)"), "wd": ("map[str, int]", "local('srcd', None)")},
        ensures={
            "keeps_the_function": "self.fn == fn",
            # positional-only parameters, in signature order, each with its default
            "positional_only_in_order": f"positional_prefix(self.args, {P}, len({P}))",
            # every other non-dependency parameter by name, with its default; nothing else
            "plain_keywords_by_name": f"plain_keywords(self.kwargs, {P}, len({P}), wk)",
            "plain_keywords_by_name_ex": f"plain_keywords_ex(self.kwargs, {P}, len({P}))",
            "dependencies_by_name": f"dep_keywords(self.dependency_kwargs, {P}, len({P}), wd)",
            "no_name_twice": "forall_str(m, not (m in self.args and m in self.kwargs))",
            "signature_names_distinct": f"forall_int(a, forall_int(b, implies(0 <= a and a < b and b < len({P}), {P}[a].name != {P}[b].name)))",
            "signature_kinds_in_order": f"forall_int(a, forall_int(b, implies(0 <= a and a < b and b < len({P}), {P}[a].kind <= {P}[b].kind)))"
                                        f" and forall_int(a, implies(0 <= a and a < len({P}), 0 <= {P}[a].kind and {P}[a].kind <= 4))",
            "catch_all_flags": f"self.all_args == exists_int(j, 0 <= j and j < len({P}) and {P}[j].kind == 2)"
                               f" and self.all_kwargs == exists_int(j, 0 <= j and j < len({P}) and {P}[j].kind == 4)",
        },
        raises=[Raises("ValueError", mode="may",
                       when=f"exists_int(j, 0 <= j and j < len({P}) and {P}[j].kind == 0 and dep_of({P}[j].annotation) is not None)",
                       modifies=["self.fn", "self.args", "self.kwargs", "self.dependency_kwargs", "self.all_args", "self.all_kwargs"])],
        modifies=["self.fn", "self.args", "self.kwargs", "self.dependency_kwargs", "self.all_args", "self.all_kwargs"],
    )


def finalize_inputs(db):
    L = "json_object(data)"
    K = "okeys(self.args)"
    VAL = lambda m, n: f"ite({n} in {L}, {L}[{n}], {m}[{n}])"          # noqa: E731  (the payload entry of that name, else the default)
    MISSING = (f"(exists_int(j, 0 <= j and j < len({K}) and at({K}, j) not in {L} and self.args[at({K}, j)] is {EMPTY})"
               f" or exists(m, 'str', m in self.kwargs and m not in {L} and self.kwargs[m] is {EMPTY}))")
    db.define("extra_key(self, data, m)", f"m in {L} and m not in self.args and m not in self.kwargs")
    db.contract(
        fn=BC + "convert_inputs", serves=["C08"], binds={"data": "str"}, options={"json_loads": "object"}, seq_lemmas=True,
        covers={"no_payload": "data == ''", "extras_by_keyword": "data != '' and self.all_kwargs and nonempty_map(result[1])",
                "positional_spill": "len(result[0]) > len(okeys(self.args))",
                "no_catch_all": "data != '' and not self.all_args and not self.all_kwargs and len(result[0]) > 0"},
        # established by __init__ (parameter names are distinct): no name is both positional-only and keyword; and the
        # representation relation with the signature of self.fn
        requires=["forall_str(m, not (m in self.args and m in self.kwargs))",
                  "positional_prefix(self.args, params_of(self.fn), len(params_of(self.fn)))",
                  "plain_keywords_ex(self.kwargs, params_of(self.fn), len(params_of(self.fn)))",
                  "self.all_args == exists_int(j, 0 <= j and j < len(params_of(self.fn)) and params_of(self.fn)[j].kind == 2)",
                  "self.all_kwargs == exists_int(j, 0 <= j and j < len(params_of(self.fn)) and params_of(self.fn)[j].kind == 4)"],
        returns="tuple[seq[opaque], map[str, opaque]]",
        ensures={
            # a job enqueued without arguments: the actor is called with nothing and Python applies its defaults
            "no_payload_no_arguments": "implies(data == '', len(result[0]) == 0 and not nonempty_map(result[1]))",
            # each positional-only parameter, in signature order: the payload entry of its name, else its default
            "positional_by_name_or_default": f"implies(data != '', len(result[0]) >= len({K}) and forall_int(j, implies(0 <= j and j < len({K}),"
                                             f" at(result[0], j) == {VAL('self.args', f'at({K}, j)')})))",
            # every other parameter by keyword: the payload entry of its name, else its default
            "keywords_by_name_or_default": f"implies(data != '', forall_str(m, implies(m in self.kwargs, m in result[1]"
                                           f" and result[1][m] == {VAL('self.kwargs', 'm')})))",
            # entries with no matching parameter go only to a catch-all parameter
            "extras_by_keyword_only_into_var_keyword": f"implies(data != '', forall_str(m, implies(m in result[1] and m not in self.kwargs,"
                                                       f" self.all_kwargs and extra_key(self, data, m) and result[1][m] == {L}[m])))",
            "var_keyword_takes_every_extra": f"implies(data != '' and self.all_kwargs, forall_str(m, implies(extra_key(self, data, m), m in result[1])))",
            "extras_positionally_only_into_var_positional": f"implies(data != '' and not (self.all_args and not self.all_kwargs), len(result[0]) == len({K}))",
            "var_positional_takes_only_extras": f"implies(data != '', forall_int(j, implies(len({K}) <= j and j < len(result[0]),"
                                                f" exists(m, 'str', extra_key(self, data, m) and at(result[0], j) == {L}[m]))))",
            # values passed positionally beyond the positional-only ones are bound by Python to the positional-or-keyword
            # parameters FIRST: they reach *args only if there is no such parameter
            "positional_spill_reaches_var_positional": f"implies(len(result[0]) > len({K}), forall_int(j, implies(0 <= j and j < len(params_of(self.fn)),"
                                                       " params_of(self.fn)[j].kind != 1)))",
            # a parameter without a default that the payload lacks is never given a made-up value
            "never_a_made_up_value": f"forall_int(j, implies(0 <= j and j < len(result[0]), at(result[0], j) is not {EMPTY}))"
                                     f" and forall_str(m, implies(m in result[1], result[1][m] is not {EMPTY}))",
        },
        raises=[Raises("JSONDecodeError", mode="may", when="data != ''"),
                Raises("ValueError", mode="iff", when=f"data != '' and {MISSING}")],
        loops={
            "comp [loaded.pop(name, self.args[name]) for name in self.args]": LoopInv(
                header="comp [loaded.pop(name, self.args[name]) for name in self.args]",
                ghost={"acc": "seq[opaque]", "index": "i"},
                invariant={
                    "as_many_as_seen": "len(__comp) == i",
                    "by_name_or_default": f"forall_int(j, implies(0 <= j and j < i, at(__comp, j) == {VAL('self.args', f'at({K}, j)')}))",
                    "popped_exactly_the_seen_names": f"forall_str(m, (m in loaded) == (m in {L} and forall_int(j, implies(0 <= j and j < i, at({K}, j) != m))))",
                    "rest_untouched": f"forall_str(m, implies(m in loaded, loaded[m] == {L}[m]))",
                },
                modifies={"__comp": "seq[opaque]", "loaded": "map[str, opaque]"}),
            "comp {name: loaded.pop(name, self.kwargs[name]) for name in self.kwargs}": LoopInv(
                header="comp {name: loaded.pop(name, self.kwargs[name]) for name in self.kwargs}",
                ghost={"acc": "map[str, opaque]", "visited": "seen"},
                invariant={
                    "exactly_the_seen_names": "forall_str(m, (m in __comp) == (m in seen))",
                    "by_name_or_default": f"forall_str(m, implies(m in seen, __comp[m] == {VAL('self.kwargs', 'm')}))",
                    "popped_exactly_the_seen_names": f"forall_str(m, (m in loaded) == (m in {L} and m not in self.args and m not in seen))",
                    "rest_untouched": f"forall_str(m, implies(m in loaded, loaded[m] == {L}[m]))",
                },
                modifies={"__comp": "map[str, opaque]", "loaded": "map[str, opaque]"}),
        },
        modifies=[],
    )


_fin0 = finalize


def finalize(db):  # noqa: F811
    _fin0(db)
    finalize_inputs(db)


PC = "repid/converter.py::PydanticConverter."


def register_pydantic(db):
    # pydantic, assumed: a model is a set of field names, some of them required, the others with a default
    db.shape("PydModel", {"fields": "set[str]", "required": "set[str]", "defaults": "map[str, opaque]", "forbids_extra": "bool"})
    db.shape("PydConfig", {"extra": "str"})
    db.contract(fn="ConfigDict", assumed=True, params=["extra"], defaults={"extra": "'ignore'"}, returns="PydConfig",
                ensures={"as_given": "result.extra == extra"}, note="pydantic.ConfigDict(extra=...): only the `extra` policy is modelled")
    db.shape("PydanticConverter", {"fn": "opaque", "args": "seq[str]", "kwargs": "seq[str]", "dependency_kwargs": "map[str, DependencyT]",
                                   "input_pydantic_model": "PydModel", "validate_output": "bool", "output_type": "opaque",
                                   "output_pydantic_model": "PydModel"})
    db.shape("Signature", {"return_annotation": "opaque"})
    for ext in ("Any", "BaseModel", "RootModel"):
        db.shape(ext, {}, bases=[])
    db.symbolic_classes.add("FieldSpec")
    db.shape("FieldSpec", {"annotation": "opaque", "default": "opaque"})
    db.ufun("is_required_marker", ["opaque"], "bool")
    db.contract(fn="Field", assumed=True, params=[], returns="opaque", ensures={"marker": "is_required_marker(result)"},
                note="pydantic.Field() without a default: marks a field as required")
    db.contract(fn="create_model", assumed=True, params=["name", "__config__", "__base__", "**fields"],
                defaults={"__config__": "None", "__base__": "None"}, returns="PydModel",
                ensures={"extra_policy": "result.forbids_extra == (__config__ is not None and __config__.extra == 'forbid')","exactly_the_given_fields": "forall_str(m, implies(not m.startswith('__'), (m in result.fields) == (m in fields)))",
                         "no_other_field": "forall_str(m, implies(m in result.fields, m in fields))",
                         "required_are_fields": "forall_str(m, implies(m in result.required, m in result.fields))",
                         # (only for the call that passes the field specifications as one symbolic dict)
                         "required_iff_marked": "implies(typeis(fields, 'map'), forall_str(m, implies(m in result.fields and m in fields,"
                                                " (m in result.required) == is_required_marker(fields[m].default))))",
                         "default_as_given": "implies(typeis(fields, 'map'), forall_str(m, implies(m in result.fields and m in fields"
                                             " and not is_required_marker(fields[m].default), result.defaults[m] == fields[m].default)))"},
                note="pydantic.create_model(name, **{field: (annotation, default-or-Field())}): a model with exactly these fields; "
                     "a field given Field() is required, any other has the given default (NOT derived here: the tuple values are opaque)")
    db.ufun("valid_json_object", ["str"], "bool")
    L = "json_object(data)"
    db.contract(
        fn="PydModel.model_validate_json", assumed=True, params=["self", "data"], binds={"data": "str"}, returns="map[str, opaque]",
        ensures={"every_field_and_nothing_else": "forall_str(m, (m in result) == (m in self.fields))",
                 # for payloads whose values already have the annotated types validation returns them unchanged
                 "payload_entry_or_default": f"forall_str(m, implies(m in self.fields, result[m] == ite(m in {L}, {L}[m], self.defaults[m])))"},
        raises=[Raises("ValidationError", mode="iff",
                       when=f"not valid_json_object(data) or exists(m, 'str', m in self.required and m not in {L})"
                            f" or (self.forbids_extra and exists(m, 'str', m in {L} and m not in self.fields))")],
        note="pydantic BaseModel.model_validate_json: extra keys ignored (or refused under extra='forbid'), missing required field or invalid JSON -> "
             "ValidationError; values of the annotated types are returned unchanged")
    db.axiom("empty_text_is_not_json", [], "not valid_json_object('')")
    db.axiom("empty_object_text", [], "valid_json_object('{}') and forall_str(m, m not in json_object('{}'))")
    db.axiom("no_text_no_payload", [], "forall_str(m, m not in json_object(''))")


_reg0 = register


def register(db):  # noqa: F811
    _reg0(db)
    register_pydantic(db)


def finalize_pydantic(db):
    P = "params_of(fn)"
    M = "self.input_pydantic_model"
    NONDEP = lambda ps, j: f"(dep_of({ps}[{j}].annotation) is None or {ps}[{j}].kind not in (1, 3))"   # noqa: E731
    LOOP = {0: LoopInv(
        header="for p in signature.parameters.values()",
        ghost={"index": "i", "vars": {"srcd": ("map", "empty_map('str', 'int')")},
               "hints": [f"forall_int(j, implies(0 <= j and j < i - 1, {PS}[j].name != {PS}[i - 1].name))"],
               "update": {"srcd": f"map_with_if(srcd, dep_kw({PS}[i - 1]), {PS}[i - 1].name, i - 1)"}},
        invariant={
            "positional_only_prefix": f"len(self.args) <= i and forall_int(j, implies(0 <= j and j < len(self.args), {PS}[j].kind == 0 and at(self.args, j) == {PS}[j].name))"
                                      f" and forall_int(j, implies(0 <= j and j < i and {PS}[j].kind == 0, j < len(self.args)))",
            "dependency_keywords": f"dep_keywords(self.dependency_kwargs, {PS}, i, srcd)",
            "no_catch_all_no_positional_dependency": f"forall_int(j, implies(0 <= j and j < i, {PS}[j].kind not in (2, 4)"
                                                     f" and not ({PS}[j].kind == 0 and dep_of({PS}[j].annotation) is not None)))",
            "same_signature": f"same_arr({PS}, params_of(fn))",
        },
        modifies={"self.args": "seq[str]", "self.kwargs": "seq[str]", "self.dependency_kwargs": "map[str, DependencyT]", "srcd": "map[str, int]"})}
    db.contract(fn=PC + "_generate_output_model", serves=["C08"], inline=True, note="one call of pydantic.create_model, executed inline")
    COMP = "comp {p.name: (p.annotation if p.annotation is not inspect.Parameter.empty else Any, p.default if p.default is not inspect.Parameter.empty else Field()) for p in signature.parameters.values() if p.name not in self.dependency_kwargs}"
    LOOP[COMP] = LoopInv(
        header=COMP, ghost={"acc": "map[str, sym[FieldSpec]]", "index": "i2",
                            "hints": [f"forall_int(j, implies(0 <= j and j < i2 - 1, {PS}[j].name != {PS}[i2 - 1].name))"]},
        invariant={"fields_so_far": f"forall_str(m, (m in __comp) == exists_int(j, 0 <= j and j < i2 and {PS}[j].name == m"
                                    f" and {PS}[j].name not in self.dependency_kwargs))",
                   "declared_default_or_required": f"forall_int(j, implies(0 <= j and j < i2 and {PS}[j].name not in self.dependency_kwargs,"
                                                   f" is_required_marker(__comp[{PS}[j].name].default) == ({PS}[j].default is {EMPTY})"
                                                   f" and implies({PS}[j].default is not {EMPTY}, __comp[{PS}[j].name].default == {PS}[j].default)))"},
        modifies={"__comp": "map[str, sym[FieldSpec]]"})
    BAD = f"exists_int(j, 0 <= j and j < len({P}) and ({P}[j].kind in (2, 4) or ({P}[j].kind == 0 and dep_of({P}[j].annotation) is not None)))"
    MODS = ["self.fn", "self.args", "self.kwargs", "self.dependency_kwargs", "self.input_pydantic_model", "self.validate_output",
            "self.output_type", "self.output_pydantic_model"]
    db.contract(
        fn=PC + "__init__", serves=["C08"], binds={"fn": "opaque"}, loops=LOOP, seq_lemmas=True,
        fresh={"wd": ("map[str, int]", "local('srcd', None)")},
        # pydantic reserves names that start with two underscores (create_model's own keywords): not parameter names here
        requires=[f"forall_int(j, implies(0 <= j and j < len({P}), not {P}[j].name.startswith('__')))",
                  # declared defaults are plain values, not pydantic Field() objects
                  f"forall_int(j, implies(0 <= j and j < len({P}), not is_required_marker({P}[j].default)))"],
        ensures={
            "keeps_the_function": "self.fn == fn",
            # a parameter without a default is a required field, any other field defaults to the declared default
            "required_iff_no_default": f"forall_int(j, implies(0 <= j and j < len({P}) and {P}[j].name not in self.dependency_kwargs,"
                                       f" ({P}[j].name in {M}.required) == ({P}[j].default is {EMPTY})"
                                       f" and implies({P}[j].default is not {EMPTY}, {M}.defaults[{P}[j].name] == {P}[j].default)))",
            "positional_only_in_order": f"len(self.args) <= len({P}) and forall_int(j, implies(0 <= j and j < len(self.args), {P}[j].kind == 0 and at(self.args, j) == {P}[j].name))"
                                        f" and forall_int(j, implies(0 <= j and j < len({P}) and {P}[j].kind == 0, j < len(self.args)))",
            "dependencies_by_name": f"dep_keywords(self.dependency_kwargs, {P}, len({P}), wd)",
            # the input model has one field per non-dependency parameter, and no other
            # (which names are dependencies is `dependencies_by_name`)
            "model_fields_are_the_plain_parameters": f"forall_str(m, (m in {M}.fields) == (m not in self.dependency_kwargs"
                                                     f" and exists_int(j, 0 <= j and j < len({P}) and {P}[j].name == m)))",
            "every_positional_is_a_field": f"forall_int(j, implies(0 <= j and j < len(self.args), at(self.args, j) in {M}.fields))",
            # entries that match no parameter are ignored, exactly as the basic converter ignores them
            "extras_are_ignored_not_refused": f"not {M}.forbids_extra",
            "positional_names_distinct": "forall_int(a, forall_int(b, implies(0 <= a and a < b and b < len(self.args), at(self.args, a) != at(self.args, b))))",
        },
        raises=[Raises("ValueError", mode="iff", when=BAD, modifies=MODS)],
        modifies=MODS,
    )
    L = "json_object(data)"
    V = lambda n: f"ite({n} in {L}, {L}[{n}], {M}.defaults[{n}])"     # noqa: E731
    NODUP = "forall_int(a, forall_int(b, implies(0 <= a and a < b and b < len(self.args), at(self.args, a) != at(self.args, b))))"
    db.contract(
        fn=PC + "convert_inputs", serves=["C08"], binds={"data": "str"}, seq_lemmas=True,
        covers={"with_positional_only": "len(result[0]) > 0", "keywords_only": "len(result[0]) == 0", "no_payload": "data == ''"},
        options={"axioms": ["empty_text_is_not_json", "empty_object_text", "no_text_no_payload"]},
        returns="tuple[seq[opaque], map[str, opaque]]",
        # established by __init__: positional names are distinct fields of the input model
        # established by __init__: positional names are distinct fields of the input model, which ignores unknown entries
        requires=[NODUP, f"forall_int(j, implies(0 <= j and j < len(self.args), at(self.args, j) in {M}.fields))",
                  f"not {M}.forbids_extra"],
        ensures={
            "positional_by_name_or_default": f"len(result[0]) == len(self.args) and forall_int(j, implies(0 <= j and j < len(self.args),"
                                             f" at(result[0], j) == {V('at(self.args, j)')}))",
            "keywords_are_the_other_fields": f"forall_str(m, (m in result[1]) == (m in {M}.fields"
                                             " and not exists_int(a, 0 <= a and a < len(self.args) and at(self.args, a) == m)))",
            "keywords_by_name_or_default": f"forall_str(m, implies(m in result[1], result[1][m] == {V('m')}))",
        },
        # C08: invalid text or a missing required argument fails the execution - and NOTHING else does: in particular a job
        # enqueued without arguments ('' = no payload) runs when no field is required
        raises=[Raises("ValidationError", mode="iff",
                       when=f"(data != '' and not valid_json_object(data)) or exists(m, 'str', m in {M}.required and m not in {L})")],
        loops={
            "comp [loaded.pop(arg) for arg in self.args]": LoopInv(
                header="comp [loaded.pop(arg) for arg in self.args]", ghost={"acc": "seq[opaque]", "index": "i"},
                invariant={
                    "as_many_as_seen": "len(__comp) == i",
                    "by_name": f"forall_int(j, implies(0 <= j and j < i, at(__comp, j) == {V('at(self.args, j)')}))",
                    "popped_exactly_the_seen_names": f"forall_str(m, (m in loaded) == (m in {M}.fields and forall_int(j, implies(0 <= j and j < i, at(self.args, j) != m))))",
                    "rest_untouched": f"forall_str(m, implies(m in loaded, loaded[m] == {V('m')}))",
                },
                modifies={"__comp": "seq[opaque]", "loaded": "map[str, opaque]"}),
        },
        modifies=[],
    )


_fin1 = finalize


def finalize(db):  # noqa: F811
    _fin1(db)
    finalize_pydantic(db)


def finalize_outputs_and_default(db):
    # ---- the encoded return value decodes to the value the actor returned (JSON text by the assumed model of C07)
    for cls in ("BasicConverter", "PydanticConverter"):
        db.contract(fn=f"repid/converter.py::{cls}.convert_outputs", serves=["C08"], inline_in_harness=True,
                    note="real body executed inside the output round-trip harness")
    db.contract(
        fn="harness::basic_output_roundtrip", serves=["C08"], harness_module="repid/converter.py",
        harness_src="def basic_output_roundtrip(conv, value):\n    return json.loads(conv.convert_outputs(value))\n",
        binds={"conv": "BasicConverter", "value": "opaque"},
        ensures={"decodes_to_the_returned_value": "result == value"}, raises=[], modifies=[], returns="opaque")
    db.contract(
        fn="harness::pydantic_output_roundtrip_untyped", serves=["C08"], harness_module="repid/converter.py",
        harness_src="def pydantic_output_roundtrip_untyped(conv, value):\n    return json.loads(conv.convert_outputs(value))\n",
        binds={"conv": "PydanticConverter", "value": "opaque"},
        # an actor without a return annotation: no output model, plain JSON encoding (typed outputs go through pydantic)
        requires=["not conv.validate_output"],
        ensures={"decodes_to_the_returned_value": "result == value"}, raises=[], modifies=[], returns="opaque")
    # ---- the default selection
    db.ufun("installed", ["str", "str"], "bool")
    db.contract(fn="repid/converter.py::PydanticV1Converter.__init__", assumed=True, binds={"fn": "opaque"},
                ensures={"keeps_the_function": "self.fn == fn"}, raises=[Raises("ValueError", mode="may", modifies=["self.fn"])],
                modifies=["self.fn"],
                note="pydantic v1 legacy converter (deprecated, excluded from the repository's own coverage): not under contract")
    db.contract(
        fn="repid/converter.py::DefaultConverter.__new__", serves=["C08"], binds={"fn": "opaque", "cls": "opaque"}, options={"is_installed": "symbolic"},
        requires=["forall_int(j, implies(0 <= j and j < len(params_of(fn)), not params_of(fn)[j].name.startswith('__')"
                  " and not is_required_marker(params_of(fn)[j].default)))"],
        ensures={
            "pydantic_2_first": "implies(installed('pydantic', '>=2.0.0,<3.0.0'), isinstance(result, PydanticConverter) and not isinstance(result, PydanticV1Converter))",
            "then_pydantic_1": "implies(not installed('pydantic', '>=2.0.0,<3.0.0') and installed('pydantic', '>=1.0.0,<2.0.0'), isinstance(result, PydanticV1Converter))",
            "else_basic": "implies(not installed('pydantic', '>=2.0.0,<3.0.0') and not installed('pydantic', '>=1.0.0,<2.0.0'), isinstance(result, BasicConverter))",
            "for_this_function": "result.fn == fn",
        },
        raises=[Raises("ValueError", mode="may")], modifies=[],
    )


_fin2 = finalize


def finalize(db):  # noqa: F811
    _fin2(db)
    finalize_outputs_and_default(db)


def finalize_agreement(db):
    # ---- the basic and the pydantic converter call the actor with equal arguments (contracts only: both constructors and both
    # convert_inputs are applied BY CONTRACT, so this is a lemma over the four contracts above)
    P = "params_of(fn)"
    L = "json_object(data)"
    db.contract(
        fn="harness::converters_agree", serves=["C08"], harness_module="repid/converter.py",
        harness_src="def converters_agree(fn, data):\n"
                    "    basic = BasicConverter(fn)\n"
                    "    pyd = PydanticConverter(fn)\n"
                    "    return (basic.convert_inputs(data), pyd.convert_inputs(data))\n",
        binds={"fn": "opaque", "data": "str"},
        options={"axioms": ["empty_text_is_not_json", "empty_object_text", "no_text_no_payload"], "json_loads": "object"},
        requires=[
            "data != '' and valid_json_object(data)",       # a payload is given (without one: f() against f(**defaults))
            f"forall_int(j, implies(0 <= j and j < len({P}), not {P}[j].name.startswith('__') and not is_required_marker({P}[j].default)))",
        ],
        cuts={
            "no_catch_all_parameter": f"forall_int(j, implies(0 <= j and j < len({P}), {P}[j].kind not in (2, 4)))",
            "basic_spills_nothing": "not local('basic', None).all_args and not local('basic', None).all_kwargs",
            "names_distinct": f"forall_int(a, forall_int(b, implies(0 <= a and a < b and b < len({P}), {P}[a].name != {P}[b].name)))",
            "same_positional_names": f"len(okeys(local('basic', None).args)) == len(local('pyd', None).args)"
                                     f" and forall_int(j, implies(0 <= j and j < len(local('pyd', None).args), {P}[j].kind == 0"
                                     f" and at(okeys(local('basic', None).args), j) == {P}[j].name and at(local('pyd', None).args, j) == {P}[j].name))",
            "positional_are_not_dependencies": f"forall_int(j, implies(0 <= j and j < len(local('pyd', None).args),"
                                               f" {P}[j].name not in local('pyd', None).dependency_kwargs))",
            "same_positional_defaults": f"forall_int(j, implies(0 <= j and j < len(local('pyd', None).args),"
                                        f" local('basic', None).args[{P}[j].name] == {P}[j].default"
                                        f" and implies({P}[j].default is not {EMPTY}, local('pyd', None).input_pydantic_model.defaults[{P}[j].name] == {P}[j].default)"
                                        f" and (({P}[j].name in local('pyd', None).input_pydantic_model.required) == ({P}[j].default is {EMPTY}))))",
            "same_length": "len(result[0][0]) == len(result[1][0]) and len(result[1][0]) == len(local('pyd', None).args)",
            # keyword side: the fields of the input model that are not positional-only are exactly the basic converter's keywords
            "dependency_iff_declared": f"forall_int(j, implies(0 <= j and j < len({P}) and {P}[j].kind in (1, 3),"
                                       f" ({P}[j].name in local('pyd', None).dependency_kwargs) == dep_kw({P}[j])))",
            "positional_only_iff_in_prefix": f"forall_int(j, implies(0 <= j and j < len({P}), ({P}[j].kind == 0) == (j < len(local('pyd', None).args))))",
            "in_positional_names_iff_positional_only": f"forall_int(j, implies(0 <= j and j < len({P}),"
                                                       f" exists_int(a, 0 <= a and a < len(local('pyd', None).args) and at(local('pyd', None).args, a) == {P}[j].name)"
                                                       f" == ({P}[j].kind == 0)))",
            "keyword_names_1": f"forall_str(m, implies(m in local('basic', None).kwargs, m in local('pyd', None).input_pydantic_model.fields"
                               f" and not exists_int(a, 0 <= a and a < len(local('pyd', None).args) and at(local('pyd', None).args, a) == m)))",
            "keyword_names_2": f"forall_str(m, implies(m in local('pyd', None).input_pydantic_model.fields"
                               f" and not exists_int(a, 0 <= a and a < len(local('pyd', None).args) and at(local('pyd', None).args, a) == m),"
                               f" m in local('basic', None).kwargs))",
            "keyword_defaults": f"forall_int(j, implies(0 <= j and j < len({P}) and plain_kw({P}[j]),"
                                f" local('basic', None).kwargs[{P}[j].name] == {P}[j].default"
                                f" and implies({P}[j].default is not {EMPTY}, local('pyd', None).input_pydantic_model.defaults[{P}[j].name] == {P}[j].default)"
                                f" and (({P}[j].name in local('pyd', None).input_pydantic_model.required) == ({P}[j].default is {EMPTY}))))",
            "basic_keywords_dom": "forall_str(m, (m in result[0][1]) == (m in local('basic', None).kwargs))",
        },
        ensures={
            "same_positional_arguments": "len(result[0][0]) == len(result[1][0]) and forall_int(j, implies(0 <= j and j < len(result[0][0]),"
                                         " at(result[0][0], j) == at(result[1][0], j)))",
            "same_keyword_arguments": "forall_str(m, (m in result[0][1]) == (m in result[1][1])"
                                      " and implies(m in result[0][1], result[0][1][m] == result[1][1][m]))",
        },
        # signatures the pydantic converter refuses, or a missing required argument (both converters refuse it)
        raises=[Raises("ValueError", mode="may"), Raises("ValidationError", mode="may"), Raises("JSONDecodeError", mode="may")],
        modifies=[], returns="tuple[tuple[seq[opaque], map[str, opaque]], tuple[seq[opaque], map[str, opaque]]]")


_fin3 = finalize


def finalize(db):  # noqa: F811
    _fin3(db)
    finalize_agreement(db)
