"""C06 / C05 - recurring jobs: cadence; the wait_until helpers that decide delayed vs immediate."""
from pyvc.spec import Raises

P = "repid/data/_parameters.py::Parameters."


def register(db):
    # history invariant established by the previous scheduling: S = the scheduled time of the iteration that ran
    c = db.contracts[P + "_prepare_reschedule"]
    c.ensures["cadence"] = ("implies(periodic(self, now) and self.delay.next_execution_time is not None"
                            " and self.delay.next_execution_time <= now,"
                            " result.delay.next_execution_time >= self.delay.next_execution_time + self.delay.defer_by)")

    for path in ("repid/connections/in_memory/utils.py", "repid/connections/rabbitmq/utils.py"):
        db.contract(
            fn=path + "::wait_until", serves=["C06", "C05"], clock=["now"], binds={"params": "Optional[Parameters]"},
            requires=["params is None or P_next_ok(params)"],
            ensures={
                "none": "implies(params is None, result is None)",
                "scheduled": "implies(params is not None and params.delay.next_execution_time is not None,"
                             " result is not None and result == params.delay.next_execution_time)",
                "first_run_until": "implies(params is not None and params.delay.next_execution_time is None"
                                   " and until_ahead(params, now), result is not None and result == params.delay.delay_until)",
                "first_run_periodic": "implies(params is not None and params.delay.next_execution_time is None"
                                      " and periodic(params, now), result is not None and now < result and result <= now + params.delay.defer_by"
                                      " and (result - time_base(params)) % params.delay.defer_by == timedelta(0))",
                "immediate": "implies(params is not None and params.delay.next_execution_time is None"
                             " and not until_ahead(params, now) and params.delay.defer_by is None, result is None)",
            },
            raises=[Raises("OverflowError", mode="may",
                           when="params is not None and params.delay.next_execution_time is None"
                                " and periodic(params, now) and not dt_in_range(now + params.delay.defer_by)")],
        )
    db.prop_meta("C06", not_decided=[
        "delivery latency of the successor (timing)", "cron-recurring jobs (croniter is not installed)",
        "'exactly one successor' on the broker side is C01's requeue contract; here: exactly one requeue call and no ack/nack",
    ])
