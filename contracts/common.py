"""Shared aliases, shapes and type invariants (DESIGN.md 2.2)."""


def register(db):
    # protocol types -> the default data classes of Config (assumption: Config data overrides are not installed)
    for a, b in [("ParametersT", "Parameters"), ("RoutingKeyT", "RoutingKey"), ("ResultPropertiesT", "ResultProperties"),
                 ("RetriesPropertiesT", "RetriesProperties"), ("DelayPropertiesT", "DelayProperties"),
                 ("BucketT", "ArgsBucket"), ("ResultBucketT", "ResultBucket")]:
        db.alias(a, b)
    # type invariant of Parameters: exactly what Job.__init__ enforces (and an obligation on it, see c07)
    db.define("valid_parameters(P)",
              "P.retries.max_amount >= 0 and P.retries.already_tried >= 0"
              " and P.execution_timeout >= timedelta(seconds=1)"
              " and (P.ttl is None or P.ttl >= timedelta(seconds=1))"
              " and (P.delay.defer_by is None or P.delay.defer_by >= timedelta(seconds=1))"
              " and (P.result is None or P.result.ttl is None or P.result.ttl >= timedelta(seconds=1))"
              " and not (P.delay.cron is not None and P.delay.defer_by is not None)")
