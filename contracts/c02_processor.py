"""C02 / C13 - one disposition per delivery; the stored result."""
from pyvc.spec import LoopInv, Raises

PROC = "repid/_processor.py::_Processor."
TERMINAL = "('ack', 'nack', 'reject', 'requeue')"


def register(db):
    db.define("n_terminal(tr)", f"sum([1 for e in tr if e[0] in {TERMINAL}])")
    db.define("n_store(tr)", "sum([1 for e in tr if e[0] == 'store_bucket'])")
    db.define("acts(tr)", "[e for e in tr if e[0] != 'get_bucket']")     # everything but the argument-bucket fetch
    db.shape("ActorResult", {"exception": "Optional[opaque]"})

    db.contract(
        fn="repid/connection.py::Connection._rb", serves=["C13"],
        result_expr="self.results_bucket_broker",
        raises=[Raises("ValueError", mode="iff", when="self.results_bucket_broker is None")],
        returns="ResultBucketBrokerT",
    )
    db.contract(
        fn="repid/connection.py::Connection._ab", serves=["C07"],
        result_expr="self.args_bucket_broker",
        raises=[Raises("ValueError", mode="iff", when="self.args_bucket_broker is None")],
        returns="ArgsBucketBrokerT",
    )

    # ---- actor_run: every outcome of user code becomes an ActorResult
    db.contract(
        fn=PROC + "actor_run", serves=["C02", "C13", "C18", "C09"], clock=["t0", "t1"],
        clause_props={"ensures:no_invocation_outlives_the_call": ["C09", "C02"], "*": ["C02", "C13", "C18"]},
        ghost_init={"eager": "int", "invocations": "int", "last_ret": "opaque", "trace": "events", "open_invocations": "int"},
        ensures={
            # C09: the runner counts processing tasks, the property counts actor invocations in progress: they agree only
            # if no invocation is still running when actor_run returns (asyncio.wait_for cancels and awaits it on timeout)
            "no_invocation_outlives_the_call": "ghost.open_invocations == old(ghost.open_invocations)",
            "eager_iff_done": "result.reporting_done == (ghost.eager == old(ghost.eager) + 1)",
            "eager_at_most_one": "ghost.eager == old(ghost.eager) or ghost.eager == old(ghost.eager) + 1",
            "invoked_at_most_once": "ghost.invocations <= old(ghost.invocations) + 1",
            "failure_has_exception": "implies(not result.reporting_done and not result.success, result.exception is not None)",
            "success_data": "implies(not result.reporting_done and result.success,"
                            " result.exception is None and result.data == conv_out(ghost.last_ret)"
                            " and ghost.invocations == old(ghost.invocations) + 1)",
            "times": "result.started_when <= result.finished_when",
            "worker_touches_no_broker": "len(trace) == 0",
        },
        raises=[],   # no Exception escapes: the worker survives every actor outcome
        modifies=["ghost.eager", "ghost.invocations", "ghost.last_ret", "ghost.open_invocations"],
        loops={0: LoopInv(header="for (dep_name, dep) in actor.converter.dependencies.items()",
                          invariant=["ghost.eager == old(ghost.eager)", "ghost.invocations == old(ghost.invocations)"],
                          modifies={"unresolved_dependencies": "map[str, opaque]"})},
        returns="ActorResult",
    )

    # ---- the result store
    db.contract(
        fn=PROC + "set_result_bucket", serves=["C13", "C02"], clock=["now"],
        ghost_init={"trace": "events", "store_fails": "bool"},
        fresh={"bucket": ("ResultBucket", "trace[0][2]")},
        effects=[("trace", "('store_bucket', result_params.id_, bucket)", "result_params is not None")],
        ensures={
            "bucket": "implies(result_params is not None,"
                      " bucket.success == result_actor.success"
                      " and bucket.started_when == result_actor.started_when"
                      " and bucket.finished_when == result_actor.finished_when"
                      " and bucket.ttl == result_params.ttl and bucket.timestamp == now"
                      " and implies(result_actor.success, bucket.data == result_actor.data and bucket.exception is None)"
                      " and implies(not result_actor.success, bucket.data == str(result_actor.exception)"
                      "             and bucket.exception == type(result_actor.exception).__name__))",
        },
        raises=[Raises("ValueError", mode="iff", when="result_params is not None and self._conn.results_bucket_broker is None",
                       ensures={"nothing": "len(trace) == 0"}),
                Raises("Exception", mode="may", anysub=True, when="flag('store_fails') and result_params is not None",
                       ensures={"nothing": "len(trace) == 0"})],
        modifies=[],
    )

    db.contract(
        fn=PROC + "get_payload", serves=["C07"], ghost_init={"trace": "events", "store_fails": "bool"},
        assumed=True, returns="str",
        raises=[Raises("Exception", mode="may", anysub=True, when="flag('store_fails')")],
        note="placeholder until C07 verifies it: returns a payload string or fails with the bucket broker",
    )

    db.contract(
        fn=PROC + "process", serves=["C02", "C13"], clock=["now", "now2", "now3"],
        ghost_init={"trace": "events", "store_fails": "bool", "eager": "int", "invocations": "int", "last_ret": "opaque",
                    "last_bucket": "Optional[ArgsBucket]"},
        requires=["valid_parameters(parameters)", "parameters.delay.cron is None",
                  "parameters.delay.defer_by is None or us(parameters.delay.defer_by) <= 10**6 * 86400 * 366 * 1000",
                  "parameters.result is None or self._conn.results_bucket_broker is not None",
                  "implies(is_marker(payload), self._conn.args_bucket_broker is not None)"],
        ensures={
            "exactly_one_disposition": "(ghost.eager - old(ghost.eager)) + n_terminal(trace) == 1",
            "eager_means_hands_off": "implies(ghost.eager == old(ghost.eager) + 1, len(acts(trace)) == 0)",
            "disposition_before_store": "implies(len(acts(trace)) == 2, acts(trace)[0][0] in ('ack', 'nack', 'requeue')"
                                        " and acts(trace)[1][0] == 'store_bucket')",
            "payload_fetched_first": "implies(n_terminal(trace) + n_store(trace) < len(trace), trace[0][0] == 'get_bucket')",
            "store_iff_enabled": "implies(ghost.eager == old(ghost.eager), n_store(trace) == (0 if parameters.result is None else 1))",
            "stored_under_result_id": "implies(n_store(trace) == 1, trace[len(trace) - 1][1] == parameters.result.id_)",
            "at_most_two_calls": "len(acts(trace)) <= 2 and len(trace) <= 3",
            "counted": "self._processed == old(self._processed) + 1",
            "invoked_at_most_once": "ghost.invocations <= old(ghost.invocations) + 1",
        },
        raises=[
            # a failing result store (or payload fetch) never changes or undoes the disposition
            Raises("Exception", mode="may", anysub=True, when="flag('store_fails')",
                   modifies=["self._processed", "ghost.eager", "ghost.invocations", "ghost.last_ret", "ghost.last_bucket"],
                   ensures={"disposition_stands": "(ghost.eager - old(ghost.eager)) + n_terminal(trace) <= 1",
                            "no_partial_store": "n_store(trace) == 0"}),
            Raises("OverflowError", mode="may", when="True", ensures={"nothing": "n_terminal(trace) == 0"},
                   modifies=["ghost.eager", "ghost.invocations", "ghost.last_ret", "ghost.last_bucket"]),
        ],
        modifies=["self._processed", "ghost.eager", "ghost.invocations", "ghost.last_ret", "ghost.last_bucket"], trace_exact=False,
    )
    db.prop_meta("C02", not_decided=[
        "'keeps processing the other messages' (liveness of the consumer loop) - only the safety part is decided: no "
        "Exception escapes actor_run/_task_callback",
        "argument conversion under the real converters (C08) and dependency resolution (C18) enter through their contracts",
        "cron-recurring jobs (croniter not installed)",
    ], assumptions=[
        "user actors interact with the broker only through the MessageDependency API (contract ActorFn.__call__)",
        "the middleware wrapper around actor_run does not change its result or exceptions (that is property C17)",
    ])
