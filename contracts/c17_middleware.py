"""C17 - middleware only observes: the signal protocol of a wrapped call."""
from pyvc.spec import Raises

W = "repid/middlewares/wrapper.py::_middleware_wrapper."


def register(db):
    # abstract keyword dictionary: only its content (an opaque value) and how it is built matter
    db.shape("KwDict", {"content": "opaque"})
    db.ufun("upd", ["opaque", "opaque"], "opaque")      # dict.update(other) as a function of both contents
    db.contract(fn="KwDict.copy", assumed=True, params=["self"], returns="KwDict", result_fields={"content": "self.content"},
                note="dict.copy(): a new dict with the same content")
    db.contract(fn="KwDict.update", assumed=True, params=["self", "other"], modifies=["self.content"],
                ensures={"merged": "self.content == upd(old(self.content), other)"}, note="dict.update(other)")
    db.shape("ContextVar", {})
    db.contract(fn="ContextVar.get", assumed=True, params=["self"], returns="bool", ensures={"v": "result == ghost.inside_mw"},
                note="IsInsideMiddleware.get() in the current task's context")
    db.shape("ContextToken", {"old": "bool"})
    db.contract(fn="ContextVar.set", assumed=True, params=["self", "value"], modifies=["ghost.inside_mw"], returns="ContextToken",
                result_fields={"old": "old(ghost.inside_mw)"},
                ensures={"v": "ghost.inside_mw == value"}, note="set() affects the current task's context only; returns a reset token")
    db.contract(fn="ContextVar.reset", assumed=True, params=["self", "token"], modifies=["ghost.inside_mw"],
                ensures={"v": "ghost.inside_mw == token.old"}, note="reset(token) restores the value before the matching set()")
    db.shape("_middleware_wrapper", {"fn": "func[WrappedFn]", "name": "str", "parameters": "opaque",
                                     "_repid_signal_emitter": "Optional[func[Emitter]]"})
    db.contract(fn="WrappedFn.__call__", assumed=True, is_async=True, params=["fn", "*a"], returns="opaque",
                modifies=["ghost.last_ret"], effects=[("sig", "('call', ghost.inside_mw)")],
                ensures={"ret": "ghost.last_ret == result"},
                raises=[Raises("Exception", mode="may", anysub=True, effects=[("sig", "('call', ghost.inside_mw)")])],
                note="the wrapped operation; the event records whether it ran with the inside-middleware flag set")
    db.contract(fn="Emitter.__call__", assumed=True, is_async=True, params=["fn", "name", "kwargs"],
                effects=[("sig", "('signal', name, kwargs.content)")],
                note="Middleware.emit_signal: calls the subscribers; never raises an Exception (subscriber wrappers swallow "
                     "them, see Middleware.add_subscriber.<locals>.wrapper)")
    db.contract(fn="spawn:_middleware_wrapper.call_set_context", assumed=True, returns="MwTask",
                result_fields={"flag_in_child": "True"},
                note="create_task copies the context: the child (call_set_context, verified below) sets the flag in its own copy only")
    db.contract(fn="spawn:WrappedFn", assumed=True, params=["fn"], returns="MwTask", result_fields={"flag_in_child": "ghost.inside_mw"},
                note="create_task(fn(...)): the child runs the operation in a COPY of the creator's context as it is at creation time")
    db.shape("MwTask", {"flag_in_child": "bool"}, bases=["Task"])
    db.contract(fn="MwTask.__await__", assumed=True, is_async=True, params=["self"], returns="opaque",
                modifies=["ghost.last_ret"], effects=[("sig", "('call', self.flag_in_child)")], ensures={"ret": "ghost.last_ret == result"},
                raises=[Raises("Exception", mode="may", anysub=True, effects=[("sig", "('call', self.flag_in_child)")])],
                note="awaiting the child task = the contract of call_set_context (verified below) run in a copied context; "
                     "being cancelled while awaiting cancels the child")

    db.contract(
        fn=W + "call_set_context", serves=["C17"], binds={"args": "opaque", "kwargs": "KwDict"},
        ghost_init={"sig": "events", "inside_mw": "bool", "last_ret": "opaque"},
        effects=[("sig", "('call', True)")],
        ensures={"flag_set_for_the_call": "ghost.inside_mw == True", "ret": "result == ghost.last_ret"},
        raises=[Raises("Exception", mode="may", anysub=True, effects=[("sig", "('call', True)")], modifies=["ghost.inside_mw"])],
        modifies=["ghost.inside_mw", "ghost.last_ret"], returns="opaque",
    )
    BYPASS = "ghost.inside_mw or self._repid_signal_emitter is None"
    BOUND = "upd(kwargs.content, zip_(self.parameters, args))"
    db.ufun("zip_", ["opaque", "opaque"], "opaque")
    db.contract(
        fn=W + "__call__", serves=["C17"], binds={"args": "opaque", "kwargs": "KwDict"},
        ghost_init={"sig": "events", "inside_mw": "bool", "last_ret": "opaque"},
        effects=[
            ("sig", f"('signal', 'before_' + self.name, {BOUND})", f"not ({BYPASS})"),
            ("sig", f"('call', True)", f"not ({BYPASS})"),
            ("sig", f"('call', ghost.inside_mw)", BYPASS),
            ("sig", f"('signal', 'after_' + self.name, upd({BOUND}, {{'result': result}}))", f"not ({BYPASS})"),
        ],
        ensures={"same_result_as_unwrapped": "result == ghost.last_ret",
                 "callers_arguments_untouched": "kwargs.content == old(kwargs.content)",
                 "callers_context_untouched": "ghost.inside_mw == old(ghost.inside_mw)"},
        raises=[Raises("Exception", mode="may", anysub=True,
                       # the operation raising: the 'before' signal and the call, no 'after' signal, same exception
                       effects=[("sig", f"('signal', 'before_' + self.name, {BOUND})", f"not ({BYPASS})"),
                                ("sig", "('call', True)", f"not ({BYPASS})"),
                                ("sig", "('call', ghost.inside_mw)", BYPASS)],
                       ensures={"callers_context_untouched": "ghost.inside_mw == old(ghost.inside_mw)"},
                       modifies=["ghost.last_ret"])],
        modifies=["ghost.last_ret"], returns="opaque",
    )
    # ---- the subscriber wrapper built by Middleware.add_subscriber
    db.shape("ArgSpec", {"args": "seq[str]", "defaults": "Optional[seq[opaque]]", "kwonlyargs": "seq[str]",
                         "varkw": "Optional[str]", "varargs": "Optional[str]"})
    db.contract(fn="Subscriber.__call__", assumed=True, is_async=True, params=["fn", "**kw"], returns="opaque",
                effects=[("calls", "('subscriber', kw)")],
                raises=[Raises("Exception", mode="may", anysub=True, effects=[("calls", "('subscriber', kw)")])],
                note="user subscriber (made async by asyncify): called with keyword arguments; may raise any Exception")
    db.contract(
        fn="repid/middlewares/middleware.py::Middleware.add_subscriber.<locals>.wrapper", serves=["C17"],
        binds={"kwargs": "map[str, opaque]", "asyncified": "func[Subscriber]", "argspec": "ArgSpec", "logger_extra": "opaque"},
        ghost_init={"calls": "events"},
        fresh={"passed": ("map[str, opaque]", "calls[0][1]")},
        effects=[("calls", "('subscriber', passed)")],
        ensures={
            # the subscriber receives exactly the signal arguments it declares (positional-or-keyword or keyword-only)
            "exactly_the_declared_arguments":
                "forall_str(k, (k in passed) == (k in kwargs and (k in argspec.args or k in argspec.kwonlyargs)))",
            "values_unchanged": "forall_str(k, implies(k in passed, passed.get(k) == kwargs.get(k)))",
        },
        raises=[],    # whatever the subscriber raises (any Exception) is swallowed
        modifies=[], returns="opaque",
    )
    # ---- emitter wiring: constructing objects for connection c writes emitters only on objects owned by c
    WRAPPED = {"MessageBrokerT": ("enqueue", "reject", "ack", "nack", "requeue", "queue_declare", "queue_flush", "queue_delete"),
               "ConsumerT": ("consume",), "BucketBrokerT": ("get_bucket", "store_bucket", "delete_bucket")}
    for cls, names in WRAPPED.items():
        # representation established by _WrappedABC.__new__: one wrapper object per instance and wrapped method
        db.shape(cls, {n: "_middleware_wrapper" for n in names})
        db.shape(cls, {"_signal_emitter_var": "Optional[func[Emitter]]"})
    A = "repid/connections/abc.py::"
    db.contract(
        fn=A + "_WrappedABC._signal_emitter.setter", serves=["C17"], binds={"signal_emitter": "func[Emitter]"},
        variants={c: {"self": c} for c in WRAPPED},
        ghost_init={"shared_writes": "events"},
        ensures={"all_wrapped_methods": "forall_in(m, self.__WRAPPED_METHODS__, getattr(self, m)._repid_signal_emitter == signal_emitter)",
                 "remembered": "self._signal_emitter_var == signal_emitter"},
        modifies=["self._signal_emitter_var", "for m in self.__WRAPPED_METHODS__: getattr(self, m)._repid_signal_emitter"],
    )
    db.contract(
        fn=A + "_WrappedABC._signal_emitter", serves=["C17"], variants={c: {"self": c} for c in WRAPPED},
        result_expr="self._signal_emitter_var", returns="Optional[func[Emitter]]",
        requires=["True"], note="(the hasattr branch concerns objects on which the emitter was never set)",
    )
    db.contract(
        fn="repid/_processor.py::_Processor.__init__", serves=["C17"], ghost_init={"shared_writes": "events"},
        ensures={"conn": "self._conn is _conn", "counter": "self._processed == 0"},
        effects=[],   # no write to an object shared with other connections' processors
        modifies=["self._conn", "self._processed"],
    )
    db.contract(
        fn="repid/connection.py::Connection.__post_init__", serves=["C17", "C13"], ghost_init={"shared_writes": "events"},
        variants={"default_buckets": {},
                  "results_broker_builds_args_buckets": {"self": "ConnectionWithWrongResultsBroker"}},
        lets={"em": "self.middleware.emit_signal"},
        ensures={
            "message_broker": "forall_in(m, self.message_broker.__WRAPPED_METHODS__, getattr(self.message_broker, m)._repid_signal_emitter == em)",
            "args_broker": "implies(self.args_bucket_broker is not None, forall_in(m, ('get_bucket', 'store_bucket', 'delete_bucket'),"
                           " getattr(self.args_bucket_broker, m)._repid_signal_emitter == em))",
            "results_broker": "implies(self.results_bucket_broker is not None, forall_in(m, ('get_bucket', 'store_bucket', 'delete_bucket'),"
                              " getattr(self.results_bucket_broker, m)._repid_signal_emitter == em))",
        },
        # the results broker must build ResultBucketT-compatible buckets, else the connection is refused
        raises=[Raises("ValueError", mode="iff",
                       when="self.results_bucket_broker is not None and self.results_bucket_broker.BUCKET_CLASS != ResultBucket")],
        modifies=["self.message_broker._signal_emitter_var",
                  "for m in self.message_broker.__WRAPPED_METHODS__: getattr(self.message_broker, m)._repid_signal_emitter",
                  "self.args_bucket_broker._signal_emitter_var",
                  "for m in ('get_bucket', 'store_bucket', 'delete_bucket'): getattr(self.args_bucket_broker, m)._repid_signal_emitter",
                  "self.results_bucket_broker._signal_emitter_var",
                  "for m in ('get_bucket', 'store_bucket', 'delete_bucket'): getattr(self.results_bucket_broker, m)._repid_signal_emitter"],
    )
    db.shape("ConnectionWithWrongResultsBroker", {"message_broker": "MessageBrokerT", "args_bucket_broker": "Optional[ArgsBucketBrokerT]",
                                                  "results_bucket_broker": "Optional[ArgsBucketBrokerT]",
                                                  "middleware": "Middleware", "is_open": "bool"}, bases=["Connection"])
    db.prop_meta("C17", not_decided=[
        "slow subscribers (timing); subscribers raising BaseException",
    ], assumptions=["contextvars: a task created with create_task runs in a copy of the creator's context"])
