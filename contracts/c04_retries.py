"""C04 / C06 / C02 - the disposition ladder, retry and reschedule parameter updates."""
from pyvc.spec import Raises

P = "repid/data/_parameters.py::Parameters."
PROC = "repid/_processor.py::_Processor."

SAME_BASE = ("a.execution_timeout == b.execution_timeout and a.result == b.result"
             " and a.retries.max_amount == b.retries.max_amount"
             " and a.delay.delay_until == b.delay.delay_until and a.delay.defer_by == b.delay.defer_by"
             " and a.delay.cron == b.delay.cron and a.ttl == b.ttl")


def register(db):
    db.define("same_but_schedule(a, b)", SAME_BASE)
    db.define("recurring(P)", "P.delay.defer_by is not None or P.delay.cron is not None")

    db.contract(
        fn=P + "_prepare_retry", serves=["C04", "C12", "C02"], clock=["now"],
        ensures={
            "counter": "result.retries.already_tried == self.retries.already_tried + 1",
            "backoff": "result.delay.next_execution_time == now + next_retry",
            "ttl_clock_kept": "result.timestamp == self.timestamp",
            "rest": "same_but_schedule(result, self)",
        },
        raises=[Raises("OverflowError", mode="may", when="not dt_in_range(now + next_retry)")],
        modifies=[],
    )
    db.contract(
        fn=P + "_prepare_reschedule", serves=["C06", "C12", "C02"], clock=["now", "now2"],
        requires=["P_next_ok(self)"],
        ensures={
            "counter_reset": "result.retries.already_tried == 0",
            "ttl_clock_restarted": "result.timestamp == now2",
            "rest": "same_but_schedule(result, self)",
            "until": "implies(until_ahead(self, now), result.delay.next_execution_time == self.delay.delay_until)",
            "grid": "implies(periodic(self, now), (result.delay.next_execution_time - time_base(self)) % self.delay.defer_by == timedelta(0))",
            "future": "implies(periodic(self, now), now < result.delay.next_execution_time)",
            "at_most_one_period": "implies(periodic(self, now), result.delay.next_execution_time <= now + self.delay.defer_by)",
            "none": "implies(not until_ahead(self, now) and self.delay.defer_by is None, result.delay.next_execution_time is None)",
        },
        raises=[Raises("OverflowError", mode="may",
                       when="periodic(self, now) and not dt_in_range(now + self.delay.defer_by)")],
        modifies=[],
    )

    # ---- the ladder
    db.define("retry_branch(R, P)", "not R.success and P.retries.already_tried < P.retries.max_amount")
    db.contract(
        fn=PROC + "report_to_broker", serves=["C04", "C02", "C06"], clock=["now", "now2"],
        ghost_init={"trace": "events"},
        requires=["valid_parameters(parameters)", "parameters.delay.cron is None",
                  # the precondition under which _prepare_* do not overflow the year 9999 (environmental)
                  "parameters.delay.defer_by is None or us(parameters.delay.defer_by) <= 10**6 * 86400 * 366 * 1000"],
        fresh={"newp": ("Parameters", "trace[0][3]")},
        effects=[
            ("trace", "('requeue', key, payload, newp)", "retry_branch(result_, parameters) or recurring(parameters)"),
            ("trace", "('ack', key)", "not retry_branch(result_, parameters) and not recurring(parameters) and result_.success"),
            ("trace", "('nack', key)", "not retry_branch(result_, parameters) and not recurring(parameters) and not result_.success"),
        ],
        ensures={
            "retry": "implies(retry_branch(result_, parameters),"
                     " newp.retries.already_tried == parameters.retries.already_tried + 1"
                     " and newp.delay.next_execution_time == now + policy(actor.retry_policy, parameters.retries.already_tried + 1)"
                     " and newp.timestamp == parameters.timestamp"
                     " and same_but_schedule(newp, parameters))",
            "reschedule": "implies(not retry_branch(result_, parameters) and recurring(parameters),"
                          " newp.retries.already_tried == 0 and newp.timestamp == now2"
                          " and same_but_schedule(newp, parameters)"
                          " and implies(periodic(parameters, now), now < newp.delay.next_execution_time"
                          "             and newp.delay.next_execution_time <= now + parameters.delay.defer_by))",
        },
        lets={"result_": "result"},
        raises=[Raises("OverflowError", mode="may", when="True",
                       ensures={"no_disposition": "len(trace) == 0"})],
        modifies=[],
    )
    db.lemmas.append(dict(
        name="retry_chain_step", serves=["C04"],
        vars={"N": "int", "tried": "int"},
        requires=["0 <= tried", "tried <= N"],
        ensures="(tried < N and tried + 1 <= N) or (not (tried < N) and tried == N)",
        note="with report_to_broker.retry (retry iff failure and tried < N) and _prepare_retry.counter (tried' = tried+1): "
             "the counter stays <= N and the attempt with tried == N takes the nack/reschedule branch; by induction on "
             "N - tried an always-failing job is executed at counter values 0..N, i.e. exactly N+1 times",
    ))
    db.prop_meta("C04", not_decided=[
        "'on every broker': redelivery of the requeued message once and not before its due time is C01/C05's contract",
        "cron-recurring jobs (croniter not installed)",
    ])
