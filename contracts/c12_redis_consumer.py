"""C12 / C11 - the Redis consumer's delivery decision (expired -> dead letter; live -> delivered)."""
from pyvc.spec import LoopInv, Raises

C = "repid/connections/redis/consumer.py::_RedisConsumer."


def register(db):
    db.shape("_RedisConsumer", {"broker": "RedisMessageBroker", "queue_name": "str", "topics": "set[str]",
                                "category": "MessageCategory", "conn": "RedisConn", "queue": "seq[opaque]",
                                "pause_lock": "Lock", "consume_task": "Optional[Task]"})
    db.shape("RedisMessageBroker", {"conn": "RedisConn", "_priorities": "opaque", "dsn": "str"})
    db.shape("RedisConn", {})
    db.contract(fn="repid/connections/redis/utils.py::get_priorities_order", assumed=True, params=["priorities_chanses"],
                returns="tuple[PrioritiesT, PrioritiesT, PrioritiesT]",
                note="a permutation of the three priorities chosen at random (random.random is outside the subset)")
    # one attempt to take a message of the consumer's category and the given priority (verified in c01_redis)
    db.contract(fn=C + "__get_message", assumed=True, is_async=True,
                returns="Optional[tuple[RoutingKey, str, Parameters]]",
                effects=[("got", "result", "result is not None")],
                modifies=["ghost.taken"], ensures={"taken": "(result is not None) == (ghost.taken == old(ghost.taken) + 1)",
                                                   "count": "ghost.taken == old(ghost.taken) or ghost.taken == old(ghost.taken) + 1",
                                                   "decoded_ttl_representable": "implies(result is not None, result[2].ttl is None"
                                                                                " or dt_in_range(result[2].timestamp + result[2].ttl))"},
                note="placeholder for the fetch+take path (c01_redis): returns a message it has marked as processing, or None")
    db.contract(fn="RedisMessageBroker.nack", assumed=True, is_async=True, params=["self", "key"],
                effects=[("trace", "('nack', key)")], note="verified in c01_redis")
    db.contract(
        fn=C + "consume_or_none", serves=["C12"],
        ghost_init={"trace": "events", "taken": "int", "got": "events"},
        returns="Optional[tuple[RoutingKey, str, Parameters]]",
        ensures={
            # a message still within its time-to-live (or without one) is never dead-lettered
            "live_never_dead_lettered": "forall_in(e, trace, exists_in(g, got, g[0] is e[1] and g[2].ttl is not None"
                                        " and last_now() > g[2].timestamp + g[2].ttl))",
            # whatever is returned is delivered: it must not be expired when it is a NORMAL delivery
            "delivered_is_live": "implies(result is not None and self.category == MessageCategory.NORMAL,"
                                 " not (result[2].ttl is not None and last_now() > result[2].timestamp + result[2].ttl))",
            "returned_is_never_nacked": "implies(result is not None, forall_in(e, trace, not (e[1] is result[0])))",
            # dead letters stay retrievable: a DEAD (or DELAYED inspection) consumer never dead-letters what it reads
            "inspection_never_dead_letters": "implies(self.category != MessageCategory.NORMAL, len(trace) == 0)",
            "every_taken_message_is_returned_or_nacked": "ghost.taken - old(ghost.taken) == len(trace) + (0 if result is None else 1)",
        },
        raises=[], modifies=["ghost.taken"], trace_exact=False,
    )
