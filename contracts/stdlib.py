"""Assumed contracts for asyncio and user callables (DESIGN.md 2.5).  All of these are assumptions."""
from pyvc.spec import Raises


def register(db):
    db.contract(fn="asyncio.sleep", assumed=True, is_async=True, params=["delay", "result"], defaults={"result": "None"},
                note="suspends the task; no effect on program state")
    db.contract(fn="asyncio.gather", assumed=True, is_async=True, params=["*aws"], defaults={}, returns="opaque",
                raises=[Raises("Exception", mode="may", anysub=True)],
                note="awaits all awaitables; returns their results in order or raises the first exception; "
                     "the awaited dependency providers perform no eager broker action")
    # ---- user code: the actor function
    db.contract(fn="ActorFn.__call__", assumed=True, is_async=True, params=["fn", "*a"], returns="opaque",
                modifies=["ghost.eager", "ghost.invocations", "ghost.last_ret"],
                ensures={"no_eager": "ghost.eager == old(ghost.eager)",
                         "counted": "ghost.invocations == old(ghost.invocations) + 1",
                         "ret": "ghost.last_ret == result"},
                raises=[
                    Raises("Exception", mode="may", anysub=True, modifies=["ghost.invocations"],
                           ensures={"counted": "ghost.invocations == old(ghost.invocations) + 1"}),
                    Raises("_NoAction", mode="may", modifies=["ghost.eager", "ghost.invocations"],
                           fields={"success": "bool", "data": "Optional[str]", "exception": "Optional[Exception]"},
                           ensures={"one_eager_action": "ghost.eager == old(ghost.eager) + 1",
                                    "counted": "ghost.invocations == old(ghost.invocations) + 1"}),
                ],
                note="user actor: returns any value, or raises any Exception without having completed an eager "
                     "broker action, or leaves by _NoAction after exactly one eager action (the contract that "
                     "MessageDependency's eager actions are verified against)")
    db.shape("ActorData", {"fn": "func[ActorFn]"})
    # ---- converters (user-replaceable): total functions that may raise
    db.ufun("conv_out", ["opaque"], "str")
    db.contract(fn="ConverterT.convert_inputs", assumed=True, params=["self", "data"], returns="tuple[opaque, opaque]",
                raises=[Raises("Exception", mode="may", anysub=True)], note="converter: returns (args, kwargs) or raises")
    db.contract(fn="ConverterT.convert_outputs", assumed=True, params=["self", "data"], returns="str",
                ensures={"det": "result == conv_out(data)"},
                raises=[Raises("Exception", mode="may", anysub=True)], note="converter: encodes the return value or raises")
    db.shape("ConverterT", {"dependencies": "map[str, DependencyT]"})
    db.symbolic_classes.add("DependencyT")
    db.shape("DependencyT", {"__repid_dependency__": "str"})
    db.contract(fn="DependencyT.construct_as_dependency", assumed=True, params=["self", "context"], returns="DependencyT",
                raises=[Raises("Exception", mode="may", anysub=True)])
    db.contract(fn="DependencyT.resolve", assumed=True, is_async=True, params=["self", "context"],
                defaults={"context": "None"}, returns="opaque", raises=[Raises("Exception", mode="may", anysub=True)])
