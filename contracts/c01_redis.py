"""C01 / C05 / C14 / C15 / C03 / C07 - the Redis broker against the assumed command model (pyvc/redis_model.py).

Abstract view, for a routing key k with short name n = '<topic>:<id>' and full name F = 'm:<queue>:<priority>:<n>':
  waiting  : n in LIST  'q:<queue>:<priority>:n'   (new names enter at the head = index 0, consumers take from the tail)
  delayed  : n in ZSET  'q:<queue>:<priority>:d'   with score = due second
  dead     : n in LIST  'q:<queue>:<priority>:dead'
  held     : n in ZSET  'processing'               (score = second at which it was taken)
  data     : HASH F with fields payload, parameters, (_reject_to while held)
"""
from pyvc.spec import LoopInv, Raises

B = "repid/connections/redis/message_broker.py::RedisMessageBroker."
U = "repid/connections/redis/utils.py::"
C = "self.conn"


def register(db):
    db.define("qn(k)", "'q:' + k.queue + ':' + str(k.priority) + ':n'")
    db.define("qd(k)", "'q:' + k.queue + ':' + str(k.priority) + ':d'")
    db.define("qdead(k)", "'q:' + k.queue + ':' + str(k.priority) + ':dead'")
    db.define("sname(k)", "k.topic + ':' + k.id_")
    db.define("fname(k)", "'m:' + k.queue + ':' + str(k.priority) + ':' + k.topic + ':' + k.id_")
    for h in ("__put_in_queue", "__mark_dead", "__unmark_processing"):
        db.contract(fn=B + h, serves=["C01"], inline=True,
                    note="private straight-line helper that only queues commands on the pipeline: inlined into every caller's VC")


def finalize(db):
    # callers of the name constructors see them through their defining equations (the bodies are f-strings: verified)
    q = db.contracts[U + "qnc"]
    q.binds = {"queue_name": "str", "priority": "int", "delayed": "bool", "dead": "bool"}
    q.returns = "str"
    q.ensures = {"text": "result == 'q:' + queue_name + ':' + str(priority) + ':' + ('dead' if dead else ('d' if delayed else 'n'))"}
    q.inline_in_harness = False
    q.inline = True
    m = db.contracts[U + "mnc"]
    m.inline_in_harness = False
    m.inline = True

    STORE = [f"{C}.lists", f"{C}.zmem", f"{C}.zscore", f"{C}.hmem", f"{C}.hval"]
    VK = "valid_key(key)"
    OTHER_LISTS = lambda *keys: ("forall_str(k, implies(" + " and ".join(f"k != {x}" for x in keys) +  # noqa: E731
                                 f", r_list({C}, k) == old(r_list({C}, k))))")
    NEXT = "params.delay.next_execution_time"
    db.contract(
        fn=B + "enqueue", serves=["C01", "C05", "C15", "C07"], clock=["now"], binds={"params": "Optional[Parameters]"},
        requires=[VK, "params is not None", "P_next_ok(params)"],
        ensures={
            "payload_kept_under_full_name": f"r_hhas({C}, fname(key), 'payload') and implies(not old(r_hhas({C}, fname(key), 'payload')),"
                                            f" r_hval({C}, fname(key), 'payload') == payload)",
            "scheduled_only_in_delayed": f"implies({NEXT} is not None, r_zhas({C}, qd(key), sname(key))"
                                         f" and earliest_take_us(r_zscore({C}, qd(key), sname(key))) >= us({NEXT}) - 1000"
                                         f" and r_list({C}, qn(key)) == old(r_list({C}, qn(key))))",
            "immediate_enters_at_head": f"implies(imm(params, now), r_list({C}, qn(key)) == seq1(sname(key)) + old(r_list({C}, qn(key))))",
            "deferred_never_waiting": f"implies(not imm(params, now), r_list({C}, qn(key)) == old(r_list({C}, qn(key))))",
            "other_lists_untouched": OTHER_LISTS("qn(key)"),
            "not_marked_held": f"r_zhas({C}, 'processing', sname(key)) == old(r_zhas({C}, 'processing', sname(key)))",
        },
        raises=[Raises("ConnectionError", mode="may", modifies=[]),
                Raises("OverflowError", mode="may", when=f"periodic(params, now) and {NEXT} is None and not dt_in_range(now + params.delay.defer_by)")],
        modifies=STORE,
    )
    db.contract(
        fn=B + "ack", serves=["C01", "C14"], requires=[VK],
        ensures={"data_deleted": f"forall_str(f, not r_hhas({C}, fname(key), f))",
                 "no_longer_held": f"not r_zhas({C}, 'processing', sname(key))",
                 "queues_untouched": f"forall_str(k, implies(k != fname(key), r_list({C}, k) == old(r_list({C}, k))))"},
        raises=[Raises("ConnectionError", mode="may", modifies=[])], modifies=STORE,
    )
    db.contract(
        fn=B + "nack", serves=["C01", "C12"], requires=[VK],
        ensures={"dead_lettered": f"r_list({C}, qdead(key)) == seq1(sname(key)) + old(r_list({C}, qdead(key)))",
                 "no_longer_held": f"not r_zhas({C}, 'processing', sname(key))",
                 "data_kept": f"forall_str(f, implies(f != '_reject_to', r_hhas({C}, fname(key), f) == old(r_hhas({C}, fname(key), f))"
                              f" and r_hval({C}, fname(key), f) == old(r_hval({C}, fname(key), f))))",
                 "other_lists_untouched": OTHER_LISTS("qdead(key)")},
        raises=[Raises("ConnectionError", mode="may", modifies=[])], modifies=STORE,
    )
    db.contract(
        fn=B + "requeue", serves=["C01", "C03", "C04"], clock=["now"], binds={"params": "Optional[Parameters]"},
        requires=[VK, "params is not None", "P_next_ok(params)"],
        ensures={
            # atomically: new payload/parameters under the same id, in exactly one place, no longer held
            "payload_replaced": f"r_hhas({C}, fname(key), 'payload') and r_hval({C}, fname(key), 'payload') == payload",
            "no_longer_held": f"not r_zhas({C}, 'processing', sname(key))",
            "scheduled_only_in_delayed": f"implies({NEXT} is not None, r_zhas({C}, qd(key), sname(key))"
                                         f" and earliest_take_us(r_zscore({C}, qd(key), sname(key))) >= us({NEXT}) - 1000"
                                         f" and r_list({C}, qn(key)) == old(r_list({C}, qn(key))))",
            "immediate_returns_to_the_front": f"implies(imm(params, now), r_list({C}, qn(key)) == old(r_list({C}, qn(key))) + seq1(sname(key)))",
            "other_lists_untouched": OTHER_LISTS("qn(key)"),
        },
        # one transaction: a failure (or cancellation before EXEC) leaves everything as it was - never lost
        raises=[Raises("ConnectionError", mode="may", modifies=[]),
                Raises("OverflowError", mode="may", when=f"periodic(params, now) and {NEXT} is None and not dt_in_range(now + params.delay.defer_by)")],
        modifies=STORE,
    )


def finalize_reject(db):
    STORE = [f"{C}.lists", f"{C}.zmem", f"{C}.zscore", f"{C}.hmem", f"{C}.hval"]
    MARK_DEAD = f"(old(r_hhas({C}, fname(key), '_reject_to')) and old(r_hval({C}, fname(key), '_reject_to')) == 'dead')"
    HAS_PARAMS = f"old(r_hhas({C}, fname(key), 'parameters'))"
    db.contract(
        fn=B + "reject", serves=["C01", "C05", "C15", "C03"], clock=["now"], ghost_init={"decoded": "Parameters"},
        requires=["valid_key(key)", f"r_hhas({C}, fname(key), 'parameters')"],
        ensures={
            "no_longer_held": f"not r_zhas({C}, 'processing', sname(key))",
            # back to the category it was taken from: the marker written when it was taken decides
            "dead_stays_dead": f"implies({MARK_DEAD}, r_list({C}, qdead(key)) == seq1(sname(key)) + old(r_list({C}, qdead(key)))"
                               f" and r_list({C}, qn(key)) == old(r_list({C}, qn(key))))",
            "never_deliverable_earlier": f"implies(not {MARK_DEAD} and ghost.decoded.delay.next_execution_time is not None,"
                                         f" r_zhas({C}, qd(key), sname(key)) and r_list({C}, qn(key)) == old(r_list({C}, qn(key)))"
                                         f" and earliest_take_us(r_zscore({C}, qd(key), sname(key))) >= us(ghost.decoded.delay.next_execution_time) - 1000)",
            "waiting_returns_to_the_front": f"implies(not {MARK_DEAD} and imm(ghost.decoded, now),"
                                            f" r_list({C}, qn(key)) == old(r_list({C}, qn(key))) + seq1(sname(key)))",
            "data_kept": f"r_hhas({C}, fname(key), 'parameters') and r_hval({C}, fname(key), 'parameters') == old(r_hval({C}, fname(key), 'parameters'))",
        },
        raises=[Raises("ConnectionError", mode="may", modifies=["ghost.decoded"]),
                Raises("Exception", mode="may", anysub=True, modifies=["ghost.decoded"])],
        modifies=STORE + ["ghost.decoded"],
    )


_fin0 = finalize


def finalize(db):  # noqa: F811
    _fin0(db)
    finalize_reject(db)


def share_connection(ip, args):
    me = args["self"]
    broker = ip.st.heap[(me.ref, "broker")]
    ip.st.heap[(me.ref, "conn")] = ip.st.heap[(broker.ref, "conn")]


def finalize_consumer(db):
    K = "repid/connections/redis/consumer.py::_RedisConsumer."
    STORE = [f"{C}.lists", f"{C}.zmem", f"{C}.zscore", f"{C}.hmem", f"{C}.hval"]
    db.contract(fn=K + "__mark_processing", serves=["C14"], inline=True, note="private helper that only queues commands")
    MATCH = "(not nonempty(topics) or exists(t, 'str', t in topics and result.startswith(t + ':')))"
    db.contract(
        fn=K + "__fetch_message_name", assumed=True, is_async=True, returns="Optional[str]",
        binds={"full_queue_name": "str", "startswith_topics": "opaque", "delayed": "bool", "force_delayed": "bool"},
        ensures={"in_source_when_seen": f"implies(result is not None, ite(delayed, r_zhas({C}, full_queue_name, result),"
                                        f" contains(r_list({C}, full_queue_name), result)))"},
        note="placeholder (the window scan is decided separately): a name that was in the source when it was read")
    db.contract(
        fn=K + "__get_message_name", serves=["C14", "C01", "C11"], binds={"full_queue_name": "str", "topics": "set[str]"},
        clause_props={"ensures:only_names_of_my_topics": ["C11"], "*": ["C14", "C01"]},
        setup=share_connection,      # consumer.conn IS broker.conn (set in _RedisConsumer.__init__)
        requires=["self.broker.processing_queue == 'processing'"],
        # other consumers run between this consumer's round trips: anything may happen to the lists and sorted sets
        shared=[f"{C}.lists", f"{C}.zmem", f"{C}.zscore"], rely=[],
        ensures={
            # C14: a name is handed out only if THIS consumer's transaction removed it from the source
            "taken_only_if_removed_by_me": "implies(result is not None, redis_removed() == 1)",
            "nothing_taken_nothing_marked": f"implies(result is None, {C}.hmem == old({C}.hmem) and {C}.hval == old({C}.hval))",
            # C11: a short name is '<topic>:<id>': only names whose topic part is one of this consumer's topics are taken
            # (the prefix must include the ':' delimiter, otherwise topic `send` would also take `send_email:...`)
            "only_names_of_my_topics": "implies(result is not None, not nonempty(local('topics', self.topics))"
                                       " or exists(t, 'str', t in local('topics', self.topics) and result.startswith(t + ':')))",
        },
        raises=[], modifies=STORE, returns="Optional[str]",
    )


_fin1 = finalize


def finalize(db):  # noqa: F811
    _fin1(db)
    finalize_consumer(db)


def fetch_setup(ip, args):
    """startswith_topics is tuple(t + ':' for t in topics): the image of an arbitrary set of topic names"""
    import ast as _ast
    from pyvc.interp import Frame
    from pyvc.loops import VMapped
    share_connection(ip, args)
    import z3
    m = VMapped(args["startswith_topics"], "x", _ast.parse("x + ':'", mode="eval").body, Frame(None))
    m.pred = z3.Function("name_of_my_topics", z3.StringSort(), z3.BoolSort())
    args["startswith_topics"] = m


def finalize_fetch(db):
    K = "repid/connections/redis/consumer.py::_RedisConsumer."
    c = db.contracts[K + "__fetch_message_name"]
    c.assumed = False
    c.note = ""
    c.serves = ["C15", "C11", "C14"]
    c.setup = fetch_setup
    c.binds = {"full_queue_name": "str", "startswith_topics": "set[str]", "delayed": "bool", "force_delayed": "bool"}
    db.define("tmatch(T, s)", "not nonempty(T) or s.startswith(T)")
    L = "r_list(self.conn, full_queue_name)"
    c.ensures = {
        # C11: only names of this consumer's topics (prefix '<topic>:'), or any name when it serves all topics
        "own_topics_only": "implies(result is not None, tmatch(startswith_topics, result))",
        # C15: a normal queue is LPUSHed on enqueue and RPUSHed on return, so the list runs newest (head) -> oldest (tail);
        # the consumer must take the matching name nearest the TAIL, whatever the queue length and window size
        "oldest_matching_first": f"implies(result is not None and not delayed, exists_int(p, 0 <= p and p < len({L}) and seq_str({L}, p) == result"
                                 f" and forall_int(q, implies(p < q and q < len({L}), not tmatch(startswith_topics, seq_str({L}, q)))),"
                                 f" len({L}) + local('offset', 0) + len(local('names', ())) - 1 - local('__i1', 0) + ite(len({L}) + local('offset', 0) < 0, -(len({L}) + local('offset', 0)), 0)))",
        # ... and it gives up only when nothing in the whole list matches (no waiting message is skipped for good)
        "none_only_if_nothing_matches": f"implies(result is None and not delayed, forall_int(q, implies(0 <= q and q < len({L}),"
                                        f" not tmatch(startswith_topics, seq_str({L}, q)))))",
    }
    c.covers = {"found_in_normal_list": "result is not None and not delayed",
                "found_in_delayed_set": "result is not None and delayed", "nothing_found": "result is None",
                "found_beyond_first_window": f"result is not None and not delayed and len({L}) > 25 and local('offset', 0) < -20"}
    c.raises = []
    c.modifies = []
    c.loops = {
        0: LoopInv(header="while len(names) > 0",
                   invariant={"window_is_aligned": "implies(not delayed, offset <= 0)",
                              "scanned_tail_has_no_match": f"implies(not delayed, forall_int(q, implies(0 <= q and len({L}) + offset <= q and q < len({L}),"
                                                           f" not tmatch(startswith_topics, seq_str({L}, q)))))",
                              "empty_window_means_done": f"implies(not delayed and len(names) == 0, len({L}) + offset <= 0)"},
                   modifies={"names": "seq[bytes]", "offset": "int"}),
        1: LoopInv(header=("for name in names if delayed else reversed(names)", "for name in names", "for name in reversed(names)"), ghost={"index": "__i1"},
                   invariant={"no_match_nearer_the_tail": "implies(not delayed, forall_int(j, implies(len(names) - __i1 <= j and j < len(names),"
                                                          " not tmatch(startswith_topics, seq_str(names, j)))))",
                              "no_match_before": "implies(delayed, forall_int(j, implies(0 <= j and j < __i1,"
                                                 " not tmatch(startswith_topics, seq_str(names, j)))))"},
                   modifies={}),
    }


_fin2 = finalize


def finalize(db):  # noqa: F811
    _fin2(db)
    finalize_fetch(db)
