"""C07 - wire fidelity: encode/decode round trips (harnesses that compose the REAL encode and decode bodies),
the bucket marker, Redis key encodings."""
from pyvc.spec import Raises

YEARS_100_US = 100 * 365 * 86400 * 10**6


def register(db):
    P = "repid/data/_parameters.py"
    B = "repid/data/_buckets.py"
    for path, cls in [(P, "RetriesProperties"), (P, "ResultProperties"), (P, "DelayProperties"), (P, "Parameters"),
                      (B, "ArgsBucket"), (B, "ResultBucket")]:
        for m in ("encode", "decode"):
            db.contract(fn=f"{path}::{cls}.{m}", serves=["C07"], inline_in_harness=True,
                        note="executed (real body) inside the round-trip harness")
    db.contract(fn="repid/_utils/json_encoder.py::_RepidJSONEncoder.default", serves=["C07"], inline_in_harness=True)
    db.define("td_ok(x)", f"x is None or (x >= timedelta(0) and us(x) <= {YEARS_100_US})")
    reqs = {
        "RetriesProperties": [],
        "ResultProperties": ["td_ok(x.ttl)"],
        "DelayProperties": ["td_ok(x.defer_by)"],
        "Parameters": ["td_ok(x.ttl)", "td_ok(x.execution_timeout)", "td_ok(x.delay.defer_by)",
                       "x.result is None or td_ok(x.result.ttl)"],
        "ArgsBucket": ["td_ok(x.ttl)"],
        "ResultBucket": ["td_ok(x.ttl)"],
    }
    for path, cls in [(P, "RetriesProperties"), (P, "ResultProperties"), (P, "DelayProperties"), (P, "Parameters"),
                      (B, "ArgsBucket"), (B, "ResultBucket")]:
        db.contract(
            fn=f"harness::roundtrip_{cls}", serves=["C07"], harness_module=path, float_model="ieee",
            harness_src=f"def roundtrip_{cls}(x):\n    return {cls}.decode(x.encode())\n",
            binds={"x": cls}, requires=reqs[cls],
            # encoding then decoding is the identity: timestamps exactly, durations up to 100 years at microsecond precision
            ensures={"identity": "result == x"},
            raises=[], modifies=[], returns=cls,
        )
    db.prop_meta("C07", not_decided=[
        "user argument values beyond 'the payload string is transported unchanged' (pydantic models are delegated to pydantic)",
    ], assumptions=["JSON text round trip (json.loads o JSONEncoder.encode = jsonify), isoformat/fromisoformat inverse",
                    "IEEE double model for timedelta <-> float seconds"])


def register_names(db):
    U = "repid/connections/redis/utils.py"
    for f in ("qnc", "mnc", "parse_message_name", "parse_short_message_name", "full_message_name_from_short", "get_queue_marker"):
        db.contract(fn=f"{U}::{f}", serves=["C07"], inline_in_harness=True, note="real body executed inside the name harnesses")
    db.contract(fn="repid/data/_key.py::RoutingKey.__post_init__", serves=["C07"],
                ensures={"valid": "valid_key(self)"},
                raises=[Raises("ValueError", mode="iff", when="not valid_key(self)")], modifies=[])
    db.define("valid_key(k)", "VALID_ID.fullmatch(k.id_) is not None and VALID_NAME.fullmatch(k.topic) is not None"
                              " and VALID_NAME.fullmatch(k.queue) is not None and k.priority >= 0")
    VK = ["valid_key(key)"]
    db.contract(
        fn="harness::redis_full_name_roundtrip", serves=["C07"], harness_module=U,
        harness_src="def redis_full_name_roundtrip(key):\n    return parse_message_name(mnc(key))\n",
        binds={"key": "RoutingKey"}, requires=VK,
        ensures={"identity": "result == (key.id_, key.topic, key.queue, key.priority)"},
        raises=[], modifies=[], returns="tuple[str, str, str, int]")
    db.contract(
        fn="harness::redis_short_name_roundtrip", serves=["C07", "C11"], harness_module=U,
        harness_src="def redis_short_name_roundtrip(key):\n    return parse_short_message_name(mnc(key, short=True))\n",
        binds={"key": "RoutingKey"}, requires=VK,
        ensures={"identity": "result == (key.topic, key.id_)"}, raises=[], modifies=[], returns="tuple[str, str]")
    db.contract(
        fn="harness::redis_full_from_short", serves=["C07"], harness_module=U,
        harness_src="def redis_full_from_short(key, delayed, dead):\n"
                    "    return (full_message_name_from_short(mnc(key, short=True), qnc(key.queue, key.priority, delayed=delayed, dead=dead)), mnc(key))\n",
        binds={"key": "RoutingKey", "delayed": "bool", "dead": "bool"}, requires=VK,
        ensures={"same_full_name": "result[0] == result[1]"}, raises=[], modifies=[], returns="tuple[str, str]")
    db.contract(
        fn="harness::redis_queue_marker", serves=["C07", "C01"], harness_module=U,
        harness_src="def redis_queue_marker(key, delayed, dead):\n"
                    "    return get_queue_marker(qnc(key.queue, key.priority, delayed=delayed, dead=dead))\n",
        binds={"key": "RoutingKey", "delayed": "bool", "dead": "bool"}, requires=VK,
        ensures={"marker": "result == ('dead' if dead else ('d' if delayed else 'n'))"},
        raises=[], modifies=[], returns="str")


_register = register


def register(db):  # noqa: F811
    _register(db)
    register_names(db)
