"""C07 - wire fidelity: encode/decode round trips (harnesses that compose the REAL encode and decode bodies),
the bucket marker, Redis key encodings."""
from pyvc.spec import Raises

YEARS_100_US = 100 * 365 * 86400 * 10**6


def register(db):
    P = "repid/data/_parameters.py"
    B = "repid/data/_buckets.py"
    for path, cls in [(P, "RetriesProperties"), (P, "ResultProperties"), (P, "DelayProperties"), (P, "Parameters"),
                      (B, "ArgsBucket"), (B, "ResultBucket")]:
        for m in ("encode", "decode"):
            db.contract(fn=f"{path}::{cls}.{m}", serves=["C07"], inline_in_harness=True,
                        note="executed (real body) inside the round-trip harness")
    db.contract(fn="repid/_utils/json_encoder.py::_RepidJSONEncoder.default", serves=["C07"], inline_in_harness=True)
    db.define("td_ok(x)", f"x is None or (x >= timedelta(0) and us(x) <= {YEARS_100_US})")
    reqs = {
        "RetriesProperties": [],
        "ResultProperties": ["td_ok(x.ttl)"],
        "DelayProperties": ["td_ok(x.defer_by)"],
        "Parameters": ["td_ok(x.ttl)", "td_ok(x.execution_timeout)", "td_ok(x.delay.defer_by)",
                       "x.result is None or td_ok(x.result.ttl)"],
        "ArgsBucket": ["td_ok(x.ttl)"],
        "ResultBucket": ["td_ok(x.ttl)"],
    }
    for path, cls in [(P, "RetriesProperties"), (P, "ResultProperties"), (P, "DelayProperties"), (P, "Parameters"),
                      (B, "ArgsBucket"), (B, "ResultBucket")]:
        db.contract(
            fn=f"harness::roundtrip_{cls}", serves=["C07"], harness_module=path, float_model="ieee",
            harness_src=f"def roundtrip_{cls}(x):\n    return {cls}.decode(x.encode())\n",
            binds={"x": cls}, requires=reqs[cls],
            # encoding then decoding is the identity: timestamps exactly, durations up to 100 years at microsecond precision
            ensures={"identity": "result == x"},
            raises=[], modifies=[], returns=cls,
        )
    db.prop_meta("C07", not_decided=[
        "user argument values beyond 'the payload string is transported unchanged' (pydantic models are delegated to pydantic)",
    ], assumptions=["JSON text round trip (json.loads o JSONEncoder.encode = jsonify), isoformat/fromisoformat inverse",
                    "IEEE double model for timedelta <-> float seconds"])


def register_names(db):
    U = "repid/connections/redis/utils.py"
    for f in ("qnc", "mnc", "parse_message_name", "parse_short_message_name", "full_message_name_from_short", "get_queue_marker"):
        db.contract(fn=f"{U}::{f}", serves=["C07"], inline_in_harness=True, note="real body executed inside the name harnesses")
    db.contract(fn="repid/data/_key.py::RoutingKey.__post_init__", serves=["C07"],
                ensures={"valid": "valid_key(self)"},
                raises=[Raises("ValueError", mode="iff", when="not valid_key(self)")], modifies=[])
    db.define("valid_key(k)", "VALID_ID.fullmatch(k.id_) is not None and VALID_NAME.fullmatch(k.topic) is not None"
                              " and VALID_NAME.fullmatch(k.queue) is not None and k.priority >= 0")
    VK = ["valid_key(key)"]
    db.contract(
        fn="harness::redis_full_name_roundtrip", serves=["C07"], harness_module=U,
        harness_src="def redis_full_name_roundtrip(key):\n    return parse_message_name(mnc(key))\n",
        binds={"key": "RoutingKey"}, requires=VK,
        ensures={"identity": "result == (key.id_, key.topic, key.queue, key.priority)"},
        raises=[], modifies=[], returns="tuple[str, str, str, int]")
    db.contract(
        fn="harness::redis_short_name_roundtrip", serves=["C07", "C11"], harness_module=U,
        harness_src="def redis_short_name_roundtrip(key):\n    return parse_short_message_name(mnc(key, short=True))\n",
        binds={"key": "RoutingKey"}, requires=VK,
        ensures={"identity": "result == (key.topic, key.id_)"}, raises=[], modifies=[], returns="tuple[str, str]")
    db.contract(
        fn="harness::redis_full_from_short", serves=["C07"], harness_module=U,
        harness_src="def redis_full_from_short(key, delayed, dead):\n"
                    "    return (full_message_name_from_short(mnc(key, short=True), qnc(key.queue, key.priority, delayed=delayed, dead=dead)), mnc(key))\n",
        binds={"key": "RoutingKey", "delayed": "bool", "dead": "bool"}, requires=VK,
        ensures={"same_full_name": "result[0] == result[1]"}, raises=[], modifies=[], returns="tuple[str, str]")
    db.contract(
        fn="harness::redis_queue_marker", serves=["C07", "C01"], harness_module=U,
        harness_src="def redis_queue_marker(key, delayed, dead):\n"
                    "    return get_queue_marker(qnc(key.queue, key.priority, delayed=delayed, dead=dead))\n",
        binds={"key": "RoutingKey", "delayed": "bool", "dead": "bool"}, requires=VK,
        ensures={"marker": "result == ('dead' if dead else ('d' if delayed else 'n'))"},
        raises=[], modifies=[], returns="str")


_register = register


def register(db):  # noqa: F811
    _register(db)
    register_names(db)


def register_marker_and_job(db):
    A = "repid/_utils/args_bucket_in_message_id.py"
    for m in ("construct", "check", "deconstruct"):
        db.contract(fn=f"{A}::_ArgsBucketInMessageId.{m}", serves=["C07"], inline_in_harness=True)
    db.contract(
        fn="harness::bucket_marker_roundtrip", serves=["C07"], harness_module="repid/job.py",
        harness_src="def bucket_marker_roundtrip(id_):\n"
                    "    m = _ArgsBucketInMessageId.construct(id_)\n"
                    "    return (_ArgsBucketInMessageId.check(m), _ArgsBucketInMessageId.deconstruct(m))\n",
        binds={"id_": "str"}, requires=["VALID_ID.fullmatch(id_) is not None"],
        ensures={"recognised": "result[0] == True", "id_recovered": "result[1] == id_"},
        raises=[], modifies=[], returns="tuple[bool, str]")


_register2 = register


def register(db):  # noqa: F811
    _register2(db)
    register_marker_and_job(db)


def register_job(db):
    J = "repid/job.py::Job."
    db.ufun("marker_id", ["str"], "str")
    A = "repid/_utils/args_bucket_in_message_id.py::_ArgsBucketInMessageId."
    KEY = "__repid_payload_id"
    db.define("is_marker(s)", f"s.find('{KEY}', 0, {len(KEY) + 3}) != -1")
    # contracts used by callers outside the harness (get_payload, Job._construct_args)
    c = db.contracts[A + "check"]
    c.ensures = {"window": "result == is_marker(string)"}
    c.binds = {"string": "str"}
    c = db.contracts[A + "deconstruct"]
    c.assumed, c.returns, c.binds = True, "str", {"string": "str"}
    c.ensures = {"id": "result == marker_id(string)"}
    c.note = "json.loads(marker).get(KEY); its inverse relation to construct() is the harness bucket_marker_roundtrip"
    c = db.contracts[A + "construct"]
    c.assumed, c.returns, c.binds = True, "str", {"id_": "str"}
    c.ensures = {"marker": "is_marker(result) and marker_id(result) == id_"}
    c.note = "justified by the harness bucket_marker_roundtrip (same real bodies)"

    db.contract(
        fn="repid/_processor.py::_Processor.get_payload#", serves=[],
    ) if False else None
    gp = db.contracts["repid/_processor.py::_Processor.get_payload"]
    gp.assumed = False
    gp.note = ""
    gp.ghost_init = {"trace": "events", "store_fails": "bool", "last_bucket": "Optional[ArgsBucket]"}
    gp.requires = ["implies(is_marker(initial_payload), self._conn.args_bucket_broker is not None)"]
    gp.effects = [("trace", "('get_bucket', marker_id(initial_payload))", "is_marker(initial_payload)")]
    gp.ensures = {"inline_payload_unchanged": "implies(not is_marker(initial_payload), result == initial_payload)",
                  "bucket_payload": "implies(is_marker(initial_payload) and ghost.last_bucket is not None, result == ghost.last_bucket.data)",
                  "missing_bucket_falls_back": "implies(is_marker(initial_payload) and ghost.last_bucket is None, result == initial_payload)"}
    gp.raises = [Raises("Exception", mode="may", anysub=True, when="flag('store_fails') and is_marker(initial_payload)",
                        effects=[], modifies=["ghost.last_bucket"])]
    gp.modifies = ["ghost.last_bucket"]
    gp.serves = ["C07"]
    gb = db.contracts["BucketBrokerT.get_bucket"]
    gb.modifies = ["ghost.last_bucket"]
    gb.ensures = {"remembered": "ghost.last_bucket == result"}
    gb.effects = [("trace", "('get_bucket', id_)")]

    # ---- Job -> (routing key, parameters, payload)
    db.shape("Queue", {"name": "str", "_conn": "Connection"})
    db.shape("UUID", {"hex": "str"})
    db.shape("Job", {"name": "str", "queue": "Queue", "priority": "PrioritiesT", "id_": "Optional[str]",
                     "deferred_until": "Optional[datetime]", "deferred_by": "Optional[timedelta]", "cron": "Optional[str]",
                     "retries": "int", "timeout": "timedelta", "ttl": "Optional[timedelta]", "timestamp": "datetime",
                     "args_id": "str", "args_id_set": "bool", "args_ttl": "Optional[timedelta]", "args": "Optional[str]",
                     "use_args_bucketer": "bool", "result_id": "str", "result_ttl": "Optional[timedelta]",
                     "store_result": "bool", "_conn": "Connection"})
    db.shape("MessageBrokerT", {"ROUTING_KEY_CLASS": "cls[RoutingKey]", "PARAMETERS_CLASS": "cls[Parameters]"})
    db.define("valid_job(j)", "VALID_NAME.fullmatch(j.name) is not None and VALID_NAME.fullmatch(j.queue.name) is not None"
                              " and (j.id_ is None or VALID_ID.fullmatch(j.id_) is not None)")
    db.contract(
        fn=J + "_construct_routing_key", serves=["C07"], requires=["valid_job(self)"],
        ensures={"topic": "result.topic == self.name", "queue": "result.queue == self.queue.name",
                 "priority": "result.priority == self.priority.value",
                 "id": "implies(self.id_ is not None and self.id_ != '', result.id_ == self.id_)",
                 "valid": "valid_key(result)"},
        raises=[], modifies=[], returns="RoutingKey")
    db.contract(
        fn=J + "_construct_parameters", serves=["C07"],
        ensures={"timeout": "result.execution_timeout == self.timeout",
                 "retries": "result.retries.max_amount == self.retries and result.retries.already_tried == 0",
                 "result_settings": "(result.result is None) == (not self.store_result) and implies(self.store_result,"
                                    " result.result.id_ == self.result_id and result.result.ttl == self.result_ttl)",
                 "delay": "result.delay.delay_until == self.deferred_until and result.delay.defer_by == self.deferred_by"
                          " and result.delay.cron == self.cron and result.delay.next_execution_time is None",
                 "timestamp_and_ttl": "result.timestamp == self.timestamp and result.ttl == self.ttl"},
        raises=[], modifies=[], returns="Parameters")
    db.contract(fn="BucketBrokerT.store_bucket#job", serves=[]) if False else None
    db.contract(
        fn=J + "_construct_args", serves=["C07"], clock=["now"], ghost_init={"trace": "events", "store_fails": "bool"},
        requires=["implies(self.use_args_bucketer and self.args is not None, self._conn.args_bucket_broker is not None)"],
        fresh={"bucket": ("ArgsBucket", "trace[0][2]")},
        effects=[("trace", "('store_bucket', self.args_id, bucket)", "self.use_args_bucketer and self.args is not None")],
        ensures={
            "bucketed": "implies(self.use_args_bucketer and self.args is not None, is_marker(result) and marker_id(result) == self.args_id"
                        " and bucket.data == self.args and bucket.ttl == self.args_ttl)",
            "reference_only": "implies(not (self.use_args_bucketer and self.args is not None) and self.args_id_set,"
                              " is_marker(result) and marker_id(result) == self.args_id)",
            "inline": "implies(not (self.use_args_bucketer and self.args is not None) and not self.args_id_set,"
                      " result == (self.args if (self.args is not None and self.args != '') else ''))",
        },
        raises=[Raises("Exception", mode="may", anysub=True, when="flag('store_fails') and self.use_args_bucketer and self.args is not None")],
        modifies=[], returns="str")


def finalize(db):
    register_job(db)


def register_job_enqueue(db):
    J = "repid/job.py::Job."
    db.contract(
        fn=J + "enqueue", serves=["C07"], clock=["now"], ghost_init={"trace": "events", "store_fails": "bool", "broker_fails": "bool"},
        requires=["valid_job(self)",
                  "implies(self.use_args_bucketer and self.args is not None, self._conn.args_bucket_broker is not None)"],
        ensures={
            # the broker receives exactly what the job describes (last event = the enqueue call)
            "enqueue_is_last_call": "trace[len(trace) - 1][0] == 'enqueue'",
            "key": "trace[len(trace) - 1][1].topic == self.name and trace[len(trace) - 1][1].queue == self.queue.name"
                   " and trace[len(trace) - 1][1].priority == self.priority.value"
                   " and implies(self.id_ is not None and self.id_ != '', trace[len(trace) - 1][1].id_ == self.id_)",
            "parameters": "trace[len(trace) - 1][3].execution_timeout == self.timeout"
                          " and trace[len(trace) - 1][3].retries.max_amount == self.retries"
                          " and trace[len(trace) - 1][3].ttl == self.ttl and trace[len(trace) - 1][3].timestamp == self.timestamp"
                          " and trace[len(trace) - 1][3].delay.delay_until == self.deferred_until"
                          " and trace[len(trace) - 1][3].delay.defer_by == self.deferred_by",
            "payload_inline_or_reference": "implies(not (self.use_args_bucketer and self.args is not None) and not self.args_id_set,"
                                           " trace[len(trace) - 1][2] == (self.args if (self.args is not None and self.args != '') else ''))",
            "payload_reference": "implies((self.use_args_bucketer and self.args is not None) or self.args_id_set,"
                                 " is_marker(trace[len(trace) - 1][2]) and marker_id(trace[len(trace) - 1][2]) == self.args_id)",
            "returns_what_was_sent": "result[0] is trace[len(trace) - 1][1] and result[2] is trace[len(trace) - 1][3]",
            "at_most_store_then_enqueue": "len(trace) <= 2",
        },
        raises=[Raises("Exception", mode="may", anysub=True, when="flag('store_fails') or flag('broker_fails')")],
        modifies=[], trace_exact=False, returns="tuple[RoutingKey, str, Parameters]",
    )
    db.contract(
        fn=J + "result", serves=["C13"], ghost_init={"trace": "events", "store_fails": "bool", "last_bucket": "Optional[ArgsBucket]"},
        requires=["self._conn.results_bucket_broker is not None"],
        effects=[("trace", "('get_bucket', self.result_id)")],
        ensures={"reads_under_result_id": "True"},
        raises=[Raises("Exception", mode="may", anysub=True, when="flag('store_fails')")],
        modifies=["ghost.last_bucket"], returns="Optional[ResultBucket]",
    )


_fin = finalize


def finalize(db):  # noqa: F811
    _fin(db)
    register_job_enqueue(db)
