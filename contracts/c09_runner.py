"""C09 / C10 / C02 / C03 - the runner: slots, message limit, racing a processing task against cancellation."""
from pyvc.spec import LoopInv, Raises

R = "repid/_runner.py::_Runner."
RINV = ("self._limiter._value >= 0 and ghost.reserved >= 0 and self._tasks_processed >= 0"
        " and ghost.started >= self._tasks_processed"
        " and ghost.started - self._tasks_processed + ghost.reserved == self._tasks_concurrency_limit - self._limiter._value")
SHARED = ["self._limiter._value", "self._tasks_processed", "ghost.started", "ghost.reserved", "self._tasks.n",
          "self.stop_consume_event._flag", "self.cancel_event._flag"]
RELY = ["self._tasks_processed >= old(self._tasks_processed)", "ghost.started >= old(ghost.started)",
        "implies(old(self.stop_consume_event._flag), self.stop_consume_event._flag)",
        "implies(old(self.cancel_event._flag), self.cancel_event._flag)"]


def register(db):
    db.shape("_Runner", {"_conn": "Connection", "_processed": "int", "_tasks": "TaskSet",
                         "stop_consume_event": "Event", "cancel_event": "Event", "max_tasks": "int",
                         "_tasks_concurrency_limit": "int", "_limiter": "Semaphore", "_tasks_processed": "int",
                         "_health_check_server": "Optional[HealthCheckServer]", "_cancel_event_task": "Task",
                         "_stop_consume_event_task": "Task"})
    db.define("runner_inv(self)", RINV)
    db.define("in_flight(self)", "ghost.started - self._tasks_processed")

    db.contract(fn=R + "max_tasks_hit", serves=["C10"], ghost_init={"started": "int", "reserved": "int"},
                requires=["runner_inv(self)", "self._tasks.n == in_flight(self)"],
                # from the property: the limit is hit when finished + in flight + slots already reserved for a message reach M
                ensures={"formula": "result == (self.max_tasks - self._tasks_processed - in_flight(self) - ghost.reserved <= 0)"})
    db.contract(
        fn=R + "_task_callback", serves=["C09", "C10", "C02"], binds={"task": "Task"},
        ghost_init={"started": "int", "reserved": "int", "my_slots": "int"},
        requires=["runner_inv(self)", "in_flight(self) >= 1", "self.max_tasks >= 1", "self._tasks_concurrency_limit >= 1",
                  "self._tasks.n == in_flight(self)"],
        ensures={"invariant": "runner_inv(self)", "task_set_is_in_flight": "self._tasks.n == in_flight(self)",
                 "one_slot_released": "self._limiter._value == old(self._limiter._value) + 1",
                 "one_finished": "self._tasks_processed == old(self._tasks_processed) + 1",
                 "stop_when_limit_hit": "implies(self.max_tasks - self._tasks_processed - in_flight(self) - ghost.reserved <= 0,"
                                        " self.stop_consume_event._flag)",
                 "stop_only_then": "implies(self.max_tasks - self._tasks_processed - in_flight(self) - ghost.reserved > 0,"
                                   " self.stop_consume_event._flag == old(self.stop_consume_event._flag))",
                 "concurrency": "in_flight(self) <= self._tasks_concurrency_limit"},
        raises=[],   # never raises, whatever the task's outcome: the consumer loop is not unwound by it
        modifies=["self._limiter._value", "self._tasks_processed", "self.stop_consume_event._flag", "self._tasks.n"],
    )

    # ---- consumer interface as seen by the runner
    db.contract(fn="ConsumerT.pause", assumed=True, is_async=True, params=["self"], effects=[("ctl", "('pause',)")])
    db.contract(fn="ConsumerT.unpause", assumed=True, is_async=True, params=["self"], effects=[("ctl", "('unpause',)")])
    db.contract(fn="ConsumerT.__anext__", assumed=True, is_async=True, params=["self"],
                returns="tuple[RoutingKey, str, Parameters]", modifies=["ghost.held"], ensures={"held": "ghost.held == 1"},
                raises=[Raises("Exception", mode="may", anysub=True)],
                note="consume(): hands out one message which the caller now holds (ghost.held)")
    db.contract(fn="spawn:_Runner._process_with_event", assumed=True,
                requires=["ghost.my_slots >= 1"],   # every processing task is dominated by exactly one acquire
                modifies=["ghost.started", "ghost.reserved", "ghost.held", "ghost.my_slots"], returns="Task",
                ensures={"started": "ghost.started == old(ghost.started) + 1",
                         "my_slot_used": "ghost.my_slots == old(ghost.my_slots) - 1",
                         "slot_used": "ghost.reserved == old(ghost.reserved) - 1", "handed_over": "ghost.held == 0"},
                note="a processing task starts: one reserved slot becomes one in-flight actor invocation")

    db.contract(
        fn=R + "_run_consumer", serves=["C09", "C10"], binds={"consumer": "ConsumerT", "actors": "map[str, ActorData]"},
        ghost_init={"started": "int", "reserved": "int", "held": "int", "ctl": "events", "my_slots": "int"},
        requires=["runner_inv(self)", "self.max_tasks >= 1", "self._tasks_concurrency_limit >= 1",
                  "ghost.started <= self.max_tasks", "ghost.held == 0", "ghost.my_slots == 0"],
        yield_inv={"runner": "runner_inv(self)", "concurrency": "in_flight(self) <= self._tasks_concurrency_limit",
                   "my_slots_are_reserved": "ghost.reserved >= ghost.my_slots and ghost.my_slots >= 0"},
        shared=SHARED, rely=RELY + ["ghost.started <= self.max_tasks"],
        loops={0: LoopInv(header="async for (key, payload, params) in consumer",
                          invariant={"runner": "runner_inv(self)",
                                     "concurrency": "in_flight(self) <= self._tasks_concurrency_limit",
                                     "message_limit": "ghost.started <= self.max_tasks",
                                     "nothing_held": "ghost.held == 0", "no_slot_kept": "ghost.my_slots == 0"},
                          modifies={"ghost.my_slots": None, "self._tasks.n": None, "self._limiter._value": None, "self._tasks_processed": None, "ghost.started": None,
                                    "ghost.reserved": None, "ghost.held": None, "self.stop_consume_event._flag": None,
                                    "self.cancel_event._flag": None})},
        raises=[Raises("Exception", mode="may", anysub=True,
                       modifies=SHARED + ["ghost.held", "ghost.my_slots"])],
        modifies=SHARED + ["ghost.held", "ghost.my_slots"], trace_exact=False,
        clause_props={"loop0:*:message_limit": ["C10"]},
    )
    # ---- one processing task raced against the cancel event
    db.contract(fn="spawn:_Processor.process", assumed=True, modifies=["ghost.proc_disposed", "ghost.proc_done"],
                returns="ProcTask", ensures={"fresh": "not ghost.proc_disposed and not ghost.proc_done"},
                note="process() runs as its own task; ghost.proc_disposed: it has applied its (single, see C02) "
                     "disposition; ghost.proc_done: it has completed")
    db.define("task_done(t)", "ghost.consume_done if isinstance(t, ConsumeTask) else"
                               " (ghost.proc_done if isinstance(t, ProcTask) else t.event._flag)")
    db.contract(fn="asyncio.wait", assumed=True, is_async=True, params=["aws", "return_when", "timeout"],
                defaults={"return_when": "'ALL_COMPLETED'", "timeout": "None"}, returns="tuple[opaque, opaque]",
                ensures={"first_completed": "implies(return_when == 'FIRST_COMPLETED' and timeout is None,"
                                            " exists_in(t, aws, task_done(t)))"},
                note="asyncio.wait(FIRST_COMPLETED) returns once at least one of the awaitables is done")
    db.contract(fn="ProcTask.cancel", assumed=True, params=["self"], returns="bool",
                modifies=["ghost.proc_cancelled"], ensures={"cancelled_unless_done": "ghost.proc_cancelled == (not ghost.proc_done)"},
                note="requests cancellation: a task that is not done receives CancelledError at its current await and "
                     "makes no further progress; a task that is already done is unaffected")
    db.contract(fn="ProcTask.done", assumed=True, params=["self"], returns="bool", ensures={"done": "result == ghost.proc_done"})
    db.contract(fn="ProcTask.__await__", assumed=True, is_async=True, params=["self"],
                ensures={"completed": "ghost.proc_done"},
                raises=[Raises("Exception", mode="may", anysub=True, ensures={"completed": "ghost.proc_done"})],
                note="awaiting the processing task: returns (or re-raises its exception) once it is done")
    db.shape("ProcTask", {}, bases=["Task"])
    db.shape("ConsumeTask", {}, bases=["Task"])
    db.shape("EventTask", {"event": "Event"}, bases=["Task"])
    db.contract(fn=R + "cancel_event_task", assumed=True, returns="EventTask", result_fields={"event": "self.cancel_event"},
                note="lazily created task waiting on cancel_event: done iff the event is set (not verified: hasattr/create_task)")
    db.contract(fn=R + "stop_consume_event_task", assumed=True, returns="EventTask",
                result_fields={"event": "self.stop_consume_event"}, note="lazily created task waiting on stop_consume_event")
    db.define("n_reject(tr)", "sum([1 for e in tr if e[0] == 'reject'])")
    db.contract(
        fn=R + "_process_with_event", serves=["C02", "C03", "C13"],
        ghost_init={"trace": "events", "proc_disposed": "bool", "proc_done": "bool", "proc_cancelled": "bool"},
        requires=["not ghost.proc_cancelled"],
        shared=["ghost.proc_disposed", "ghost.proc_done", "self.cancel_event._flag"],
        rely=["implies(ghost.proc_cancelled, ghost.proc_disposed == old(ghost.proc_disposed) and ghost.proc_done == old(ghost.proc_done))",
              "implies(old(ghost.proc_disposed), ghost.proc_disposed)", "implies(old(ghost.proc_done), ghost.proc_done)",
              "implies(ghost.proc_done, ghost.proc_disposed)",
              "implies(old(self.cancel_event._flag), self.cancel_event._flag)"],
        yield_inv={"progress_is_monotone": "implies(ghost.proc_done, ghost.proc_disposed)"},
        ensures={
            "reject_only_on_cancel": "implies(n_reject(trace) > 0, self.cancel_event._flag)",
            "only_reject": "len(trace) == n_reject(trace) and n_reject(trace) <= 1",
            "no_reject_after_completion": "implies(n_reject(trace) == 1, not ghost.proc_done)",
            "at_least_one_disposition": "ghost.proc_disposed or n_reject(trace) == 1",
            "at_most_one_disposition": "not (ghost.proc_disposed and n_reject(trace) == 1)",
        },
        raises=[Raises("Exception", mode="may", anysub=True, ensures={"no_reject": "len(trace) == 0"},
                       modifies=["ghost.proc_disposed", "ghost.proc_done", "ghost.proc_cancelled", "self.cancel_event._flag"])],
        modifies=["ghost.proc_disposed", "ghost.proc_done", "ghost.proc_cancelled", "self.cancel_event._flag"], trace_exact=False,
    )

    # ---- one queue: run the consumer loop until the stop event, report a failed consumer
    db.define("task_states()", "implies(ghost.consume_failed, ghost.consume_done) and implies(ghost.consume_cancelled, ghost.consume_done)"
                               " and not (ghost.consume_failed and ghost.consume_cancelled)")
    db.contract(fn="spawn:_Runner._run_consumer", assumed=True, returns="ConsumeTask",
                modifies=["ghost.consume_done", "ghost.consume_failed", "ghost.consume_cancelled", "ghost.cancel_requested"],
                ensures={"fresh": "not ghost.consume_done and not ghost.consume_failed and not ghost.consume_cancelled"
                                  " and not ghost.cancel_requested"},
                note="the consumer loop runs as its own task; ghost.consume_failed: it ended with an exception")
    db.contract(fn="ConsumeTask.done", assumed=True, params=["self"], returns="bool", ensures={"r": "result == ghost.consume_done"})
    db.contract(fn="ConsumeTask.cancelled", assumed=True, params=["self"], returns="bool",
                ensures={"r": "result == ghost.consume_cancelled"})
    db.contract(fn="ConsumeTask.exception", assumed=True, params=["self"], returns="Optional[opaque]",
                requires=["ghost.consume_done", "not ghost.consume_cancelled"],   # else InvalidStateError / CancelledError
                ensures={"r": "(result is not None) == ghost.consume_failed"})
    db.contract(fn="ConsumeTask.cancel", assumed=True, params=["self"], returns="bool", modifies=["ghost.cancel_requested"],
                ensures={"r": "ghost.cancel_requested"})
    db.contract(fn="MessageBrokerT.get_consumer", assumed=True,
                params=["self", "queue_name", "topics", "max_unacked_messages", "category"],
                defaults={"topics": "None", "max_unacked_messages": "None", "category": "MessageCategory.NORMAL"},
                returns="ConsumerT", effects=[("ctl", "('get_consumer', queue_name, topics)")])
    db.contract(fn="ConsumerT.start", assumed=True, is_async=True, params=["self"], effects=[("ctl", "('start',)")])
    db.contract(
        fn=R + "run_one_queue", serves=["C10", "C20", "C11"], binds={"topics": "opaque", "actors": "map[str, ActorData]"},
        ghost_init={"ctl": "events", "consume_done": "bool", "consume_failed": "bool", "consume_cancelled": "bool",
                    "cancel_requested": "bool"},
        shared=["ghost.consume_done", "ghost.consume_failed", "ghost.consume_cancelled", "self.stop_consume_event._flag"],
        rely=["implies(old(ghost.consume_done), ghost.consume_done)", "implies(ghost.consume_failed, ghost.consume_done)",
              "implies(ghost.consume_cancelled, ghost.consume_done)", "not (ghost.consume_failed and ghost.consume_cancelled)",
              "implies(old(ghost.consume_failed), ghost.consume_failed)",
              "implies(old(ghost.consume_done), ghost.consume_failed == old(ghost.consume_failed))",
              "implies(old(self.stop_consume_event._flag), self.stop_consume_event._flag)"],
        requires=["task_states()"],
        yield_inv={"task_states": "task_states()"},
        ensures={
            "consumer_for_this_queue": "ctl[0] == ('get_consumer', queue_name, topics)",
            "started_then_paused": "ctl[1] == ('start',) and ctl[len(ctl) - 1] == ('pause',)",
            "health_never_recovers": "implies(self._health_check_server is not None,"
                                     " self._health_check_server._health_status == HealthCheckStatus.UNHEALTHY"
                                     " or self._health_check_server._health_status == old(self._health_check_server._health_status))",
            "consumption_ended_or_cancelled": "ghost.cancel_requested or ghost.consume_done",
            "unhealthy_only_for_failed_consumer": "implies(self._health_check_server is not None and"
                                                  " self._health_check_server._health_status != old(self._health_check_server._health_status),"
                                                  " ghost.consume_failed)",
        },
        raises=[],
        modifies=["self._health_check_server._health_status", "self.stop_consume_event._flag", "ghost.consume_done",
                  "ghost.consume_failed", "ghost.consume_cancelled", "ghost.cancel_requested"],
        trace_exact=False,
    )

    db.prop_meta("C09", not_decided=[
        "'resumes as soon as a slot frees', 'never stalls', 'every enqueued job is eventually executed' (liveness)",
        "max_tasks = infinity (the default) is covered only through the finite-M contracts; the formula is the same",
    ], assumptions=[
        "asyncio runs one task at a time and switches only at await; done-callbacks run exactly once after their task",
        "actor invocations happen only inside processing tasks (spawn:_Runner._process_with_event)",
        "rely/guarantee: every consumer loop of the runner maintains ghost.started <= max_tasks (assumed of the others, "
        "proved of this one)",
    ])
    db.prop_meta("C10", not_decided=["'its run returns once those M have finished' (termination)"])
