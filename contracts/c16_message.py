"""C16 / C04 / C02 - the message API: single-use handles, category and budget guards."""
from pyvc.spec import Raises

M = "repid/message.py::Message."
RO = "self._Message__read_only"
NOT_NORMAL = "self._category != MessageCategory.NORMAL"
BROKER_FAIL = dict(exc="Exception", mode="may", anysub=True, when="flag('broker_fails')")


def register(db):
    db.shape("Message", {"_key": "RoutingKey", "raw_payload": "str", "parameters": "Parameters",
                         "_connection": "Connection", "_category": "MessageCategory",
                         "_Message__read_only": "bool"})
    db.shape("Connection", {"args_bucket_broker": "Optional[ArgsBucketBrokerT]",
                            "results_bucket_broker": "Optional[ResultBucketBrokerT]"})
    db.shape("ArgsBucketBrokerT", {"BUCKET_CLASS": "cls[ArgsBucket]"}, bases=["BucketBrokerT"])
    db.shape("ResultBucketBrokerT", {"BUCKET_CLASS": "cls[ResultBucket]"}, bases=["BucketBrokerT"])
    common = dict(ghost_init={"trace": "events", "broker_fails": "bool"}, serves=["C16", "C02"])
    refused = {"nothing_sent": "len(trace) == 0"}   # frame (modifies=[]) gives: flag and everything else unchanged

    def guards(conds):
        return [Raises("ValueError", mode="iff", when=" or ".join(f"({c})" for c in conds), ensures=dict(refused)),
                Raises(ensures=dict(refused), **BROKER_FAIL)]

    for op in ("ack", "reject"):
        db.contract(fn=M + op, **common, raises=guards([RO]),
                    effects=[("trace", f"('{op}', self._key)")],
                    ensures={"used": f"{RO} == True"}, modifies=[RO])
    db.contract(fn=M + "nack", **common, raises=guards([NOT_NORMAL, RO]),
                effects=[("trace", "('nack', self._key)")],
                ensures={"used": f"{RO} == True"}, modifies=[RO])

    ovf_resched = Raises("OverflowError", mode="may", ensures=dict(refused),
                         when="periodic(self.parameters, now) and not dt_in_range(now + self.parameters.delay.defer_by)")
    db.contract(
        fn=M + "reschedule", ghost_init=common["ghost_init"], serves=["C16", "C06", "C02"], clock=["now", "now2"],
        requires=["P_next_ok(self.parameters)"],
        raises=guards([RO])[:1] + [ovf_resched] + guards([RO])[1:],
        fresh={"newp": ("Parameters", "trace[0][3]")},
        effects=[("trace", "('requeue', self._key, self.raw_payload, newp)")],
        ensures={"used": f"{RO} == True",
                 "counter_reset": "newp.retries.already_tried == 0",
                 "ttl_clock_restarted": "newp.timestamp == now2",
                 "rest": "same_but_schedule(newp, self.parameters)",
                 "future": "implies(periodic(self.parameters, now), now < newp.delay.next_execution_time"
                           " and newp.delay.next_execution_time <= now + self.parameters.delay.defer_by)"},
        modifies=[RO])

    for op, budget in (("retry", ["self.parameters.retries.already_tried >= self.parameters.retries.max_amount"]),
                       ("force_retry", [])):
        db.contract(
            fn=M + op, ghost_init=common["ghost_init"], serves=["C16", "C04", "C02"], clock=["now"],
            lets={"delay_": "timedelta(seconds=0) if next_retry is None else next_retry"},
            raises=guards([NOT_NORMAL, RO] + budget)[:1]
            + [Raises("OverflowError", mode="may", when="not dt_in_range(now + delay_)", ensures=dict(refused))]
            + guards([RO])[1:],
            fresh={"newp": ("Parameters", "trace[0][3]")},
            effects=[("trace", "('requeue', self._key, self.raw_payload, newp)")],
            ensures={"used": f"{RO} == True",
                     "counter": "newp.retries.already_tried == self.parameters.retries.already_tried + 1",
                     "backoff": "newp.delay.next_execution_time == now + delay_",
                     "ttl_clock_kept": "newp.timestamp == self.parameters.timestamp",
                     "rest": "same_but_schedule(newp, self.parameters)"},
            modifies=[RO])
    db.prop_meta("C16", not_decided=["concurrent use of one handle from two tasks (handles are not shared across tasks)"])
