"""C05 / C11 / C12 / C14 / C15 / C01 - the in-memory consumer, per operation (Q = self._queue)."""
from pyvc.spec import LoopInv, Raises

C = "repid/connections/in_memory/consumer.py::_InMemoryConsumer."
Q = "self._queue"
TTL_OK = "forall(y, 'InMemMessage', y.parameters.ttl is None or dt_in_range(y.parameters.timestamp + y.parameters.ttl))"


def register(db):
    db.shape("Lock", {"_locked": "bool"})
    db.contract(fn="Lock.locked", assumed=True, params=["self"], returns="bool", ensures={"r": "result == self._locked"})
    db.contract(fn="Lock.acquire", assumed=True, is_async=True, params=["self"], returns="bool", modifies=["self._locked"],
                ensures={"was_free": "not old(self._locked)", "taken": "self._locked"})
    db.contract(fn="Lock.release", assumed=True, params=["self"], modifies=["self._locked"],
                raises=[Raises("RuntimeError", mode="iff", when="not self._locked")], ensures={"free": "not self._locked"})
    db.shape("_InMemoryConsumer", {"broker": "InMemoryMessageBroker", "queue_name": "str", "_queue": "DummyQueue",
                                   "topics": "Optional[set[str]]", "category": "MessageCategory", "_paused": "Lock",
                                   "_started": "bool"})
    db.define("head(q)", "q.simple[0]")
    db.define("foreign(self, m)", "self.topics is not None and forall_nonempty(self.topics) and m.key.topic not in self.topics")

    # ---- NORMAL: examine the head of the waiting queue
    HEAD = f"old({Q}.simple)[0]"
    TAIL = f"old({Q}.simple)[1:len(old({Q}.simple))]"
    EXPIRED = f"({HEAD}.parameters.ttl is not None and now > {HEAD}.parameters.timestamp + {HEAD}.parameters.ttl)"
    FOREIGN = f"(self.topics is not None and nonempty(self.topics) and {HEAD}.key.topic not in self.topics)"
    db.contract(
        fn=C + "__consume_normal", serves=["C11", "C12", "C15", "C05", "C01"], clock=["now"],
        covers={"delivered": "result is not None", "rotated": f"result is None and len({Q}.simple) == len(old({Q}.simple)) and len(old({Q}.simple)) >= 2",
                "expired": f"result is None and len({Q}.dead) == len(old({Q}.dead)) + 1"},
        requires=[TTL_OK],
        returns="Optional[sym[InMemMessage]]",
        ensures={
            "empty": f"implies(len(old({Q}.simple)) == 0, result is None and {Q}.simple == old({Q}.simple) and {Q}.dead == old({Q}.dead))",
            # C12: an expired head goes to the dead letters and is not delivered; a live one is never dead-lettered
            "expired_to_dead": f"implies(len(old({Q}.simple)) > 0 and {EXPIRED},"
                               f" result is None and {Q}.dead == appended(old({Q}.dead), {HEAD}) and {Q}.simple == {TAIL})",
            "live_never_dead_lettered": f"implies(len(old({Q}.simple)) > 0 and not {EXPIRED}, {Q}.dead == old({Q}.dead))",
            # C11: a foreign head is neither delivered nor dropped: it goes to the back, unchanged
            "foreign_rotated": f"implies(len(old({Q}.simple)) > 0 and not {EXPIRED} and {FOREIGN},"
                               f" result is None and {Q}.simple == appended({TAIL}, {HEAD}))",
            # C15 / C11: otherwise the head itself is delivered (first in, first out; only matching topics)
            "head_delivered": f"implies(len(old({Q}.simple)) > 0 and not {EXPIRED} and not {FOREIGN},"
                              f" result is not None and result == {HEAD} and {Q}.simple == {TAIL})",
            "only_own_topics": "implies(result is not None and self.topics is not None and nonempty(self.topics),"
                               " result.key.topic in self.topics)",
        },
        raises=[], modifies=[f"{Q}.simple", f"{Q}.dead"],
    )
    # ---- DEAD
    db.contract(
        fn=C + "__consume_dead", serves=["C12", "C01"], returns="Optional[sym[InMemMessage]]",
        ensures={"empty": f"implies(len(old({Q}.dead)) == 0, result is None and {Q}.dead == old({Q}.dead))",
                 "oldest_first": f"implies(len(old({Q}.dead)) > 0, result is not None and result == old({Q}.dead)[0]"
                                 f" and {Q}.dead == old({Q}.dead)[1:len(old({Q}.dead))])"},
        raises=[], modifies=[f"{Q}.dead"],
    )
    # ---- DELAYED inspection: earliest due time first, list order within it
    NONEMPTY_LISTS = f"forall(t, 'datetime', implies(t in {Q}.delayed, len({Q}.delayed[t]) >= 1))"
    db.contract(
        fn=C + "__consume_delayed", serves=["C15", "C05", "C01", "C14"], returns="Optional[sym[InMemMessage]]",
        requires=[NONEMPTY_LISTS],
        ghost_init={"s": "datetime"},
        ensures={
            "empty": f"implies(not nonempty_map(old({Q}.delayed)), result is None and {Q}.delayed == old({Q}.delayed))",
            "earliest_first": f"implies(nonempty_map(old({Q}.delayed)), result is not None"
                              f" and exists(s, 'datetime', s in old({Q}.delayed)"
                              f" and forall(t, 'datetime', implies(t in old({Q}.delayed), s <= t))"
                              f" and result == old({Q}.delayed)[s][0]))",
            "lists_stay_nonempty": NONEMPTY_LISTS,
            "waiting_untouched": f"{Q}.simple == old({Q}.simple)",
        },
        raises=[], modifies=[f"{Q}.delayed"],
    )

    # ---- finish(): return what this consumer holds
    db.contract(
        fn=C + "finish", serves=["C14", "C03", "C01"], ghost_init={"mine": "set[InMemMessage]"},
        covers={"something_returned": f"len({Q}.simple) > len(old({Q}.simple))"},
        requires=[f"forall(m, 'InMemMessage', implies(m in ghost.mine, m in {Q}.processing))"],
        ensures={
            "nothing_of_mine_stays_held": f"forall(m, 'InMemMessage', implies(m in ghost.mine, m not in {Q}.processing))",
            "mine_are_waiting_again": f"forall(m, 'InMemMessage', implies(m in ghost.mine, contains({Q}.simple, m)))",
            "others_keep_their_messages": f"forall(m, 'InMemMessage', implies(m in old({Q}.processing) and m not in ghost.mine,"
                                          f" m in {Q}.processing))",
            "waiting_order_kept": f"{Q}.simple[0:len(old({Q}.simple))] == old({Q}.simple)",
            "stopped": "self._started == False",
        },
        loops={0: LoopInv(header="while self._queue.processing",
                          invariant={"moved_are_waiting": f"forall(m, 'InMemMessage', implies(m in old({Q}.processing)"
                                                          f" and m not in {Q}.processing, contains({Q}.simple, m)))",
                                     "no_new_held": f"forall(m, 'InMemMessage', implies(m in {Q}.processing, m in old({Q}.processing)))",
                                     "prefix": f"{Q}.simple[0:len(old({Q}.simple))] == old({Q}.simple)"
                                               f" and len({Q}.simple) >= len(old({Q}.simple))",
                                     "stopped": "self._started == False"},
                          modifies={f"{Q}.processing": None, f"{Q}.simple": None})},
        raises=[], modifies=[f"{Q}.processing", f"{Q}.simple", "self._started"],
    )
    for op, val in (("start", "True"),):
        db.contract(fn=C + op, serves=["C01"], ensures={"flag": f"self._started == {val}"}, raises=[], modifies=["self._started"])
    db.contract(fn=C + "pause", serves=["C09"], ensures={"paused": "self._paused._locked"}, raises=[], modifies=["self._paused._locked"])
    db.contract(fn=C + "unpause", serves=["C09"], ensures={"resumed": "not self._paused._locked"},
                raises=[Raises("RuntimeError", mode="iff", when="not self._paused._locked")], modifies=["self._paused._locked"])

    # ---- __update_delayed: move the entries whose due time has passed to the waiting queue.
    D0 = f"old({Q}.delayed)"
    S0 = f"old({Q}.simple)"
    # The clauses come from the property, not from the comparison the code happens to use: nothing moves before its due
    # time (T <= now is allowed to move or to stay), everything overdue (T < now) moves, an entry leaves `delayed` exactly
    # when its messages were moved.  `where` is a ghost witness: the position in pop_soon of every entry picked so far.
    PICKED = "T in where"
    db.contract(
        fn=C + "__update_delayed", serves=["C05", "C01", "C15"], clock=["now"],
        # proved since the second session (cvc5 on portable dumps, element-wise append lemmas, a witness map for pop_soon);
        # ONLY the "keeps the single-copy invariant" clauses (used by consume@interference, C14) are left to the bounded
        # stand-in: they need an injective origin function for the moved messages through two nested loops
        bounded="inmem_update_delayed", bounded_clauses=["single_copy_kept:*"], seq_lemmas=True,
        note="bounded stand-in for the single_copy_kept clauses only, see replaylib/bounded.py",
        fresh={"picked": ("map[datetime, int]", "local('where', None)"), "starts": ("map[datetime, int]", "local('start', None)")},
        ensures={
            "never_early": f"forall(m, 'InMemMessage', implies(contains({Q}.simple, m),"
                           f" contains({S0}, m) or exists(T, 'datetime', T in {D0} and T <= now and contains({D0}[T], m))))",
            "overdue_entries_leave_delayed": f"forall(T, 'datetime', implies(T in {D0} and T < now, T not in {Q}.delayed))",
            "future_entries_stay": f"forall(T, 'datetime', implies(T in {D0} and now < T, T in {Q}.delayed))",
            "no_new_entries": f"forall(T, 'datetime', implies(T in {Q}.delayed, T in {D0}))",
            "kept_entries_unchanged": f"forall(T, 'datetime', implies(T in {Q}.delayed, {Q}.delayed[T] == {D0}[T]))",
            "none_forgotten": f"forall(T, 'datetime', forall(m, 'InMemMessage', implies(T in {D0} and T < now"
                              f" and contains({D0}[T], m), contains({Q}.simple, m))))",
            "left_delayed_iff_moved": f"forall(T, 'datetime', forall(m, 'InMemMessage', implies(T in {D0} and T not in {Q}.delayed"
                                      f" and contains({D0}[T], m), contains({Q}.simple, m))))"
                                      f" and forall(m, 'InMemMessage', implies(contains({Q}.simple, m), contains({S0}, m)"
                                      f" or exists(T, 'datetime', T in {D0} and T not in {Q}.delayed and contains({D0}[T], m))))",
            "waiting_order_kept": f"{Q}.simple[0:len({S0})] == {S0}",
            # C15: the messages of one due time enter the waiting queue as one block, in the order they were enqueued
            "due_bucket_order_kept": f"forall(T, 'datetime', implies(T in {D0} and T not in {Q}.delayed, 0 <= starts[T]"
                                     f" and starts[T] + len({D0}[T]) <= len({Q}.simple) and forall_int(k, implies(0 <= k and k < len({D0}[T]),"
                                     f" at({Q}.simple, starts[T] + k) == at({D0}[T], k)))))",
        },
        loops={
            0: LoopInv(header="for (time_, msgs) in self._queue.delayed.items()",
                       ghost={"visited": "V",
                              "vars": {"where": ("map", "empty_map('datetime', 'int')"), "n0": ("int", "0"),
                                       "start": ("map", "empty_map('datetime', 'int')"), "s0len": ("int", f"len({Q}.simple)")},
                              # an entry was picked in this iteration iff pop_soon grew; its block starts where the queue ended
                              "update": {"where": "map_with_if(where, len(pop_soon) > n0, time_, len(pop_soon) - 1)",
                                         "start": "map_with_if(start, len(pop_soon) > n0, time_, s0len)",
                                         "n0": "len(pop_soon)", "s0len": f"len({Q}.simple)"}},
                       invariant={
                           "delayed_untouched": f"{Q}.delayed == {D0}",
                           "count": "n0 == len(pop_soon)",
                           "length_tracked": f"s0len == len({Q}.simple)",
                           "picked_blocks_in_order": f"forall(T, 'datetime', implies(T in where, T in start and 0 <= start[T]"
                                                     f" and start[T] + len({D0}[T]) <= len({Q}.simple) and forall_int(k, implies(0 <= k and k < len({D0}[T]),"
                                                     f" at({Q}.simple, start[T] + k) == at({D0}[T], k)))))",
                           "picked_are_due_and_listed": "forall(T, 'datetime', implies(T in where, T in V and T <= now and 0 <= where[T]"
                                                        " and where[T] < len(pop_soon) and at(pop_soon, where[T]) == T))",
                           "listed_are_picked": "forall_int(a, implies(0 <= a and a < len(pop_soon), at(pop_soon, a) in where"
                                                " and where[at(pop_soon, a)] == a))",
                           "overdue_are_picked": "forall(T, 'datetime', implies(T in V and T < now, T in where))",
                           "picked_are_moved": f"forall(T, 'datetime', forall(m, 'InMemMessage', implies({PICKED} and contains({D0}[T], m),"
                                               f" contains({Q}.simple, m))))",
                           "only_picked_are_moved": f"forall(m, 'InMemMessage', implies(contains({Q}.simple, m), contains({S0}, m) or "
                                                    f"exists(T, 'datetime', {PICKED} and T in {D0} and contains({D0}[T], m))))",
                           "prefix": f"{Q}.simple[0:len({S0})] == {S0} and len({Q}.simple) >= len({S0})",
                       },
                       modifies={"pop_soon": "seq[datetime]", f"{Q}.simple": None, "where": "map[datetime, int]", "n0": "int",
                                 "start": "map[datetime, int]", "s0len": "int"}),
            1: LoopInv(header=("for msg in msgs", "for msg in reversed(msgs)"),
                       ghost={"index": "i", "vars": {"s_in": ("seq", f"snap({Q}.simple)")}},
                       invariant={"appended_so_far": f"{Q}.simple == s_in + msgs[0:i]", "delayed_untouched": f"{Q}.delayed == {D0}"},
                       modifies={f"{Q}.simple": None}),
            2: LoopInv(header="comp [self._queue.delayed.pop(i) for i in pop_soon]", ghost={"index": "j"},
                       invariant={
                           "popped_so_far": f"forall(T, 'datetime', (T in {Q}.delayed) == (T in {D0} and"
                                            " not (T in where and where[T] < j)))",
                           "values_kept": f"forall(T, 'datetime', implies(T in {Q}.delayed, {Q}.delayed[T] == {D0}[T]))",
                       },
                       modifies={f"{Q}.delayed": None}),
        },
        raises=[], modifies=[f"{Q}.simple", f"{Q}.delayed"],
    )

    # ---- consume(): take one message and hold it, with no await between taking and holding
    def dispatch_table(ip, args):
        from pyvc.values import VMethod
        ci = ip.repo.cls("_InMemoryConsumer")
        me = args["self"]
        names = [n for n, _ in ip.tenv.enum_members("MessageCategory")]
        fn = {"NORMAL": "__consume_normal", "DELAYED": "__consume_delayed", "DEAD": "__consume_dead"}
        d = {("enum", "MessageCategory", i): VMethod(me, "_InMemoryConsumer", fn[n], ci.methods[fn[n]]) for i, n in enumerate(names)}
        ip.st.heap[(me.ref, "_InMemoryConsumer__category_to_consume")] = ip.new_dict(d)

    DISJOINT = (f"forall(m, 'InMemMessage', implies(m in {Q}.processing, not contains({Q}.simple, m) and not contains({Q}.dead, m)"
                f" and forall(t, 'datetime', implies(t in {Q}.delayed, not contains({Q}.delayed[t], m)))))")
    NO_LIMBO = f"local('msg', None) is None or local('msg', None) in {Q}.processing"
    db.contract(
        fn=C + "consume", serves=["C14", "C01", "C03", "C05"], setup=dispatch_table, cancel_at_yield=True,
        covers={"normal_delivery": "self.category == MessageCategory.NORMAL", "dead_delivery": "self.category == MessageCategory.DEAD"},
        requires=[TTL_OK, NONEMPTY_LISTS],
        fresh={"got": ("sym[InMemMessage]", "local('msg', None)")},
        returns="tuple[RoutingKey, str, Parameters]",
        yield_inv={"taken_message_is_held_before_any_await": NO_LIMBO},
        ensures={
            "now_held": f"got in {Q}.processing",
            "result_is_that_message": "result[0] == got.key and result[1] == got.payload and result[2] == got.parameters",
            "other_holders_undisturbed": f"forall(m, 'InMemMessage', implies(m in old({Q}.processing), m in {Q}.processing))",
            "exactly_one_more_held": f"forall(m, 'InMemMessage', implies(m in {Q}.processing and m != got, m in old({Q}.processing)))",
        },
        raises=[Raises("RuntimeError", mode="iff", when="not self._started"),
                Raises("CancelledError", mode="may",
                       ensures={"holders_undisturbed": f"forall(m, 'InMemMessage', implies(m in old({Q}.processing), m in {Q}.processing))"},
                       modifies=[f"{Q}.simple", f"{Q}.dead", f"{Q}.delayed", f"{Q}.processing", "self._paused._locked"])],
        loops={
            0: LoopInv(header="while self._paused.locked()", invariant={"started": "self._started"}, modifies={"self._paused._locked": None}),
            1: LoopInv(header="while (msg := _consume_fn()) is None",
                       invariant={"ttl": TTL_OK, "lists": NONEMPTY_LISTS,
                                  "held_unchanged": f"{Q}.processing == old({Q}.processing)"},
                       modifies={f"{Q}.simple": None, f"{Q}.dead": None, f"{Q}.delayed": None, "counter": "float", "msg": "Optional[sym[InMemMessage]]"}),
        },
        modifies=[f"{Q}.simple", f"{Q}.dead", f"{Q}.delayed", f"{Q}.processing", "self._paused._locked"],
    )


# ---------------------------------------------------------------------------------------------------------------
# C14 / C01 under interference (see contracts/c01_inmemory.py, single_copy): the consumer side of the invariant
def finalize(db):
    from contracts.c01_inmemory import single_copy
    from pyvc.spec import Raises as _R
    inv = single_copy(Q)
    NONEMPTY_LISTS = f"forall(t, 'datetime', implies(t in {Q}.delayed, len({Q}.delayed[t]) >= 1))"
    shared = [f"{Q}.simple", f"{Q}.processing", f"{Q}.dead", f"{Q}.delayed"]
    named = {f"single_copy:{k}": v for k, v in inv.items()}

    # the delayed inspection says exactly what it removed (needed to carry the invariant through the call)
    cd = db.contracts[C + "__consume_delayed"]
    D, D0 = f"{Q}.delayed", f"old({Q}.delayed)"
    cd.fresh = {"slot": ("datetime", "local('soonest', None)")}
    cd.ensures = dict(cd.ensures)
    cd.ensures["taken_from_its_slot"] = (
        f"implies(nonempty_map({D0}), slot in {D0} and result == at({D0}[slot], 0)"
        f" and ((slot in {D}) == (len({D0}[slot]) > 1))"
        f" and implies(slot in {D}, {D}[slot] == {D0}[slot][1:len({D0}[slot])])"
        f" and forall(T, 'datetime', implies(T != slot, ((T in {D}) == (T in {D0})) and implies(T in {D}, {D}[T] == {D0}[T]))))")

    # __update_delayed keeps every message in exactly one place (assuming it was so before): carried through the outer loop
    # as facts about the CURRENT state - the waiting queue has no duplicates, the lists not moved yet are disjoint from it,
    # its elements are neither held nor dead; one iteration appends one whole list that was disjoint from everything else
    cu = db.contracts[C + "__update_delayed"]
    cu.ensures = dict(cu.ensures)
    pre = " and ".join(f"({v})" for v in single_copy(Q, old=True).values())
    for k, v in inv.items():
        cu.ensures[f"single_copy_kept:{k}"] = f"implies({pre}, {v})"
    S, D0_ = f"{Q}.simple", f"old({Q}.delayed)"
    l0 = cu.loops[0]
    l0.invariant = dict(l0.invariant)
    l0.invariant["sc_waiting_once"] = f"implies({pre}, forall_int(i, forall_int(j, implies(0 <= i and i < j and j < len({S}), at({S}, i) != at({S}, j)))))"
    l0.invariant["sc_unmoved_lists_not_waiting"] = (
        f"implies({pre}, forall(T, 'datetime', forall_int(k, forall_int(j, implies(T in {D0_} and T not in where and 0 <= k and k < len({D0_}[T])"
        f" and 0 <= j and j < len({S}), at({D0_}[T], k) != at({S}, j))))))")
    l0.invariant["sc_waiting_not_held_not_dead"] = (
        f"implies({pre}, forall_int(j, implies(0 <= j and j < len({S}), at({S}, j) not in {Q}.processing"
        f" and forall_int(d, implies(0 <= d and d < len({Q}.dead), at({S}, j) != at({Q}.dead, d))))))")
    l0.invariant["sc_held_and_dead_untouched"] = f"{Q}.processing == old({Q}.processing) and {Q}.dead == old({Q}.dead)"
    cu.bounded = None           # every clause is proved; the former stand-in stays as an ADDITIONAL native check (it also
    cu.bounded_extra = "inmem_update_delayed"   # catches rewrites of the loops that the sidecar cannot follow)
    cu.bounded_clauses = []
    cu.note = ""
    cu.covers = {"moved_something_with_the_invariant": f"({pre}) and len({S}) > len(old({S}))",
                 "kept_something": f"nonempty_map({Q}.delayed)"}

    cf = db.contracts[C + "finish"]
    cf.variants = {
        "sequential": {},
        "interference": {"__override__": dict(
            serves=["C14"], seq_lemmas=True, requires=list(inv.values()), ghost_init={}, covers={},
            ensures=dict(named), yield_inv=dict(named), shared=shared, rely=list(inv.values()), cancel_at_yield=True,
            modifies=shared + ["self._started"],
            raises=[_R("CancelledError", mode="may", ensures=dict(named), modifies=shared + ["self._started"])],
            loops={0: LoopInv(header="while self._queue.processing", invariant=dict(inv),
                              modifies={f"{Q}.processing": None, f"{Q}.simple": None})})},
    }

    cc = db.contracts[C + "consume"]
    TTL = TTL_OK
    side = [TTL, NONEMPTY_LISTS]
    cc.variants = {
        "sequential": {},
        "interference": {"__override__": dict(
            serves=["C14"], seq_lemmas=True, requires=side + list(inv.values()), fresh={}, covers={},
            ensures=dict(named), yield_inv=dict(named), shared=shared, rely=side + list(inv.values()), cancel_at_yield=True,
            modifies=shared + ["self._paused._locked"],
            raises=[_R("RuntimeError", mode="iff", when="not self._started", ensures=dict(named), modifies=shared),
                    _R("CancelledError", mode="may", ensures=dict(named), modifies=shared + ["self._paused._locked"])],
            loops={0: LoopInv(header="while self._paused.locked()", invariant={"started": "self._started", **inv, "ttl": TTL, "lists": NONEMPTY_LISTS},
                              modifies={"self._paused._locked": None}),
                   1: LoopInv(header="while (msg := _consume_fn()) is None", invariant={"ttl": TTL, "lists": NONEMPTY_LISTS, **inv},
                              modifies={f"{Q}.simple": None, f"{Q}.dead": None, f"{Q}.delayed": None, f"{Q}.processing": None,
                                        "counter": "float", "msg": "Optional[sym[InMemMessage]]"})})},
    }
