"""C18 - dependency declarations and resolution (Depends)."""
from pyvc.spec import LoopInv, Raises

D = "repid/dependencies/depends.py::Depends."
# inspect._ParameterKind values
PO, POK, VP, KO, VK = 0, 1, 2, 3, 4


def register(db):
    db.symbolic_classes.add("Param")
    db.shape("Param", {"kind": "int", "name": "str", "default": "opaque", "annotation": "opaque"})
    db.shape("Signature", {"parameters": "ParamMap"})
    db.shape("ParamMap", {"seq": "arr[sym[Param]]"})
    db.ufun("params_of", ["opaque"], "arr[sym[Param]]")
    db.ufun("dep_of", ["opaque"], "Optional[DependencyT]")
    db.contract(fn="inspect.signature", assumed=True, params=["fn"], returns="Signature",
                result_fields={}, ensures={"deterministic": "same_arr(result.parameters.seq, params_of(fn))",
                         "distinct_names": "forall_int(a, forall_int(b, implies(0 <= a and a < b and b < len(result.parameters.seq),"
                                           " result.parameters.seq[a].name != result.parameters.seq[b].name)))"},
                note="inspect.signature: the ordered parameters of a callable (names are distinct); follows functools.wraps")
    db.contract(fn="ParamMap.values", assumed=True, params=["self"], result_expr="self.seq", returns="arr[sym[Param]]")
    db.contract(fn="repid/_utils/get_dependency.py::get_dependency", assumed=True, returns="Optional[DependencyT]",
                binds={"t": "opaque"}, ensures={"deterministic": "result == dep_of(t)"},
                note="get_dependency(annotation): the dependency declared by a direct dependency class or Annotated[..., Depends(...)], "
                     "a function of the annotation only (getattr / typing.get_origin are outside the subset)")
    db.shape("Depends", {"_fn": "func[Provider]", "_subdependencies": "map[str, DependencyT]"})
    IS_DEP = "(p.kind in (1, 3) and dep_of(p.annotation) is not None)"
    db.define("is_dep_param(p)", IS_DEP)
    db.define("bad_param(p)", "(p.kind == 0 and dep_of(p.annotation) is not None)"
                              " or (not is_dep_param(p) and p.default is inspect.Parameter.empty)")
    db.define("derived_from(subs, ps)",
              "forall_int(j, implies(0 <= j and j < len(ps) and is_dep_param(ps[j]), ps[j].name in subs and subs[ps[j].name] == dep_of(ps[j].annotation)))"
              " and forall_str(n, implies(n in subs, exists_int(j, 0 <= j and j < len(ps) and ps[j].name == n and is_dep_param(ps[j]))))")
    PS = "signature.parameters.seq"
    LOOP = {0: LoopInv(header="for p in signature.parameters.values()",
                       # ghost witness: for every name in the map, the index of the parameter it came from
                       ghost={"index": "i", "vars": {"src": ("map", "empty_map('str', 'int')")},
                              # a cut: earlier parameters have other names than the one just processed (from `distinct`)
                              "hints": [f"forall_int(j, implies(0 <= j and j < i - 1, {PS}[j].name != {PS}[i - 1].name))"],
                              "update": {"src": f"map_with_if(src, is_dep_param({PS}[i - 1]), {PS}[i - 1].name, i - 1)"}},
                       invariant={
                           "every_dep_param_is_in": f"forall_int(j, implies(0 <= j and j < i and is_dep_param({PS}[j]),"
                                                    f" {PS}[j].name in self._subdependencies"
                                                    f" and self._subdependencies[{PS}[j].name] == dep_of({PS}[j].annotation)))",
                           "every_entry_has_a_source": f"forall_str(n, implies(n in self._subdependencies, n in src and 0 <= src[n] and src[n] < i"
                                                       f" and {PS}[src[n]].name == n and is_dep_param({PS}[src[n]])))",
                           "none_bad_so_far": f"forall_int(j, implies(0 <= j and j < i, not bad_param({PS}[j])))",
                           "same_signature": f"same_arr({PS}, params_of(self._fn))",
                           "distinct": f"forall_int(a, forall_int(b, implies(0 <= a and a < b and b < len({PS}),"
                                       f" {PS}[a].name != {PS}[b].name)))",
                       },
                       modifies={"self._subdependencies": "map[str, DependencyT]", "src": "map[str, int]"})}
    db.contract(
        fn=D + "_update_subdependencies", serves=["C18"], loops=LOOP,
        ensures={
            # exactly the dependency parameters of the provider, each with the dependency its annotation declares
            "derived_from_the_signature": "derived_from(self._subdependencies, params_of(self._fn))",
            "every_declaration_supported": "forall_int(j, implies(0 <= j and j < len(params_of(self._fn)), not bad_param(params_of(self._fn)[j])))",
        },
        # unsupported declarations are rejected here, i.e. when the dependency is declared
        raises=[Raises("ValueError", mode="may",
                       when="exists_int(j, 0 <= j and j < len(params_of(self._fn)) and bad_param(params_of(self._fn)[j]))",
                       modifies=["self._subdependencies"])],
        modifies=["self._subdependencies"],
    )
    db.contract(fn="repid/_asyncify.py::asyncify#provider", serves=[]) if False else None
    db.ufun("asyncified", ["opaque"], "opaque")
    db.contract(
        fn=D + "override", serves=["C18"], binds={"fn": "opaque", "run_in_process": "bool"},
        ensures={"provider_replaced": "self._fn == asyncified(fn)",
                 # the sub-dependencies are re-derived: a stale set is impossible
                 "rederived": "derived_from(self._subdependencies, params_of(self._fn))"},
        raises=[Raises("ValueError", mode="may", modifies=["self._fn", "self._subdependencies"],
                       when="exists_int(j, 0 <= j and j < len(params_of(asyncified(fn))) and bad_param(params_of(asyncified(fn))[j]))")],
        modifies=["self._fn", "self._subdependencies"],
    )


def finalize(db):
    a = db.contracts["repid/_asyncify.py::asyncify"]
    a.ensures = {"deterministic": "result == asyncified(fn)"}
    a.note += "; a function of the wrapped callable"
    db.prop_meta("C18", not_decided=[
        "run_in_process providers (executors are outside the subset)",
        "value flow through asyncio.gather / dict(zip(...)): the order of gather's results is an assumed contract",
    ])


def register_init(db):
    db.contract(
        fn=D + "__init__", serves=["C18"], binds={"fn": "opaque", "run_in_process": "bool"},
        ensures={"provider": "self._fn == asyncified(fn)",
                 "derived": "derived_from(self._subdependencies, params_of(self._fn))"},
        # unsupported declarations are rejected when the dependency is declared, not at run time
        raises=[Raises("ValueError", mode="may", modifies=["self._fn", "self._subdependencies"],
                       when="exists_int(j, 0 <= j and j < len(params_of(asyncified(fn))) and bad_param(params_of(asyncified(fn))[j]))")],
        modifies=["self._fn", "self._subdependencies"],
    )
    MDP = "repid/dependencies/message_dependency.py::MessageDependency."
    db.contract(fn=MDP + "resolve", serves=["C18"], result_expr="self", returns="MessageDependency", raises=[], modifies=[],
                note="the message dependency resolves to the handle itself")


def register_resolve(db):
    db.contract(fn="Provider.__call__", assumed=True, is_async=True, params=["fn", "**kw"], returns="opaque",
                modifies=["ghost.provider_ret"], effects=[("calls", "('provider', fn, kw)")], ensures={"ret": "ghost.provider_ret == result"},
                raises=[Raises("Exception", mode="may", anysub=True, effects=[("calls", "('provider', fn, kw)")])],
                note="user provider (made async by asyncify): returns any value or raises any Exception")
    db.contract(
        fn=D + "resolve", serves=["C18"], binds={"context": "ResolverContext"},
        ghost_init={"calls": "events", "provider_ret": "opaque"},
        ensures={
            "provider_called_exactly_once": "len(calls) == 1 and calls[0][0] == 'provider' and calls[0][1] == self._fn",
            "value_is_what_the_provider_returned": "result == ghost.provider_ret",
            "one_resolution_per_subdependency": "forall_str(n, (n in local('unresolved_dependencies', None)) == (n in self._subdependencies))",
        },
        # a failing sub-dependency or provider fails the resolution (and, through actor_run, the execution)
        raises=[Raises("Exception", mode="may", anysub=True, ensures={"provider_at_most_once": "len(calls) <= 1"},
                       modifies=["ghost.provider_ret"]),
                Raises("ValueError", mode="may", ensures={"never_called": "len(calls) == 0"})],
        loops={0: LoopInv(header="for (dep_name, dep) in self._subdependencies.items()", ghost={"visited": "V"},
                          invariant={"exactly_the_visited_names": "forall_str(n, (n in unresolved_dependencies) == (n in V))",
                                     "nothing_called_yet": "len(ghost.calls) == 0"},
                          modifies={"unresolved_dependencies": "map[str, opaque]"})},
        modifies=["ghost.provider_ret"], trace_exact=False, returns="opaque",
    )


_reg18 = register


def register(db):  # noqa: F811
    _reg18(db)
    register_init(db)
    register_resolve(db)
