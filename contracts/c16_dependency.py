"""C16 / C13 / C02 - MessageDependency: eager actions, result setting, callbacks."""
from pyvc.spec import LoopInv, Raises

MD = "repid/dependencies/message_dependency.py::MessageDependency."
RO = "self._Message__read_only"
RS = "self._MessageDependency__result_success"
RD = "self._MessageDependency__result_data"
RE = "self._MessageDependency__result_exception"
NOT_NORMAL = "self._category != MessageCategory.NORMAL"


def register(db):
    db.shape("MessageDependency", {
        "_actor_data": "ActorData", "_actor_processing_started_when": "int",
        "_callbacks": "seq[func[Callback]]",
        "_MessageDependency__lazy_result_callback": "func[LazyResultCallback]",
        "_MessageDependency__result_success": "Optional[bool]",
        "_MessageDependency__result_data": "Optional[str]",
        "_MessageDependency__result_exception": "Optional[opaque]",
    })
    # user callbacks: awaited one by one; may fail.  ghost.cb_calls counts them.
    db.contract(fn="Callback.__call__", assumed=True, is_async=True, params=["fn"], returns="opaque",
                modifies=["ghost.cb_calls", "ghost.called"],
                ensures={"counted": "ghost.cb_calls == old(ghost.cb_calls) + 1", "order": "ghost.called == appended(old(ghost.called), fn)"},
                raises=[Raises("Exception", mode="may", anysub=True, when="flag('callback_fails')",
                               modifies=["ghost.cb_calls", "ghost.called"],
                               ensures={"counted": "ghost.cb_calls == old(ghost.cb_calls) + 1",
                                        "order": "ghost.called == appended(old(ghost.called), fn)"})],
                note="registered callback (user function or the result-store closure): may raise any Exception")
    db.contract(fn="LazyResultCallback.__call__", assumed=True, params=["fn"],
                note="the lazily positioned insert of the store callable: `lambda: None` or partial(list.insert, n, store); "
                     "never raises; its effect on the callback list is not modelled (ordering clause of C16 is not decided)")
    db.contract(fn="repid/_asyncify.py::asyncify", assumed=True, params=["fn", "run_in_process"], defaults={"run_in_process": "False"},
                returns="func[Callback]", note="wraps a sync or async callable into an async callable")

    LAZY = "self._MessageDependency__lazy_result_callback"

    def lazy_state(ip, args):
        """representation of the lazily positioned store callable: `lambda: None` or partial(self._callbacks.insert, n, store)
        with 0 <= n <= len(self._callbacks) (n was len() at set_* time and callbacks are only ever appended)"""
        import ast as _ast
        import z3 as _z3
        from pyvc.values import VInt, VLambda, VOpaque, VPartial
        from pyvc.interp import Frame
        me = args["self"]
        st = ip.st
        cbs = st.heap[(me.ref, "_callbacks")]
        is_set = st.fresh("lazy_is_set", _z3.BoolSort())
        st.input_terms["lazy_is_set"] = is_set
        if st.branch(is_set):
            pos = st.fresh("lazy_pos", _z3.IntSort())
            st.input_terms["lazy_pos"] = pos
            st.assume(_z3.And(pos >= 0, pos <= _z3.Length(st.heap[(cbs.ref, "seq")])))
            tok = VOpaque(st.fresh("store_callable", Opaque_), tag="Callback")
            ins = ip.getattr(cbs, "insert")
            st.heap[(me.ref, "_MessageDependency__lazy_result_callback")] = VPartial(ins, [VInt(pos), tok], {})
        else:
            node = _ast.parse("lambda: None", mode="eval").body
            st.heap[(me.ref, "_MessageDependency__lazy_result_callback")] = VLambda(node, Frame(None))

    from pyvc.values import Opaque as Opaque_
    EXPECTED = (f"(self._callbacks[0:partial_arg({LAZY}, 0)] + seq_of(partial_arg({LAZY}, 1)) + "
                f"self._callbacks[partial_arg({LAZY}, 0):len(self._callbacks)])"
                f" if is_insert_partial({LAZY}, self._callbacks) else self._callbacks")
    db.define("expected_callbacks(self)", f"snap({EXPECTED})")
    db.contract(
        fn=MD + "__execute_callbacks", serves=["C16", "C13", "C02"], setup=lazy_state,
        ghost_init={"cb_calls": "int", "callback_fails": "bool", "trace": "events", "called": "seq[func[Callback]]"},
        lets={"exp": "expected_callbacks(self)"},
        covers={"two_callbacks_with_store": "len(self._callbacks) >= 3 and ghost.cb_calls == old(ghost.cb_calls) + len(self._callbacks)",
                "no_store": f"not is_insert_partial({LAZY}, self._callbacks) and len(self._callbacks) >= 1"},
        ensures={"all_called": "ghost.cb_calls == old(ghost.cb_calls) + len(self._callbacks)",
                 # registration order, the result store taking the place of the latest set_result / set_exception call
                 "in_registration_order_store_in_place": "ghost.called == old(ghost.called) + exp",
                 "list_is_the_expected_one": "self._callbacks == exp"},
        raises=[],   # a failing callback never escapes (it would be taken for a failed execution after the disposition)
        modifies=["ghost.cb_calls", "ghost.called", "self._callbacks"],
        loops={0: LoopInv(header="for c in self._callbacks",
                          invariant=["ghost.cb_calls == old(ghost.cb_calls) + i",
                                     "ghost.called == old(ghost.called) + self._callbacks[0:i]",
                                     "self._callbacks == exp"], ghost={"index": "i", "prefix_lemma": True},
                          modifies={"ghost.cb_calls": None, "ghost.called": None})},
    )

    def eager(op, guards, default_success, extra=None):
        extra = extra or {}
        refused = {"nothing_sent": "len(trace) == 0"}
        cond = " or ".join(f"({g})" for g in guards)
        raises = [Raises("ValueError", mode="iff", when=cond, ensures=dict(refused))]
        raises += extra.get("raises", [])
        raises += [
            Raises("Exception", mode="may", anysub=True, when="flag('broker_fails')", ensures=dict(refused)),
            # the only way out after the broker action: _NoAction carrying the latest set_result/set_exception values
            Raises("_NoAction", mode="may", when=f"not ({cond})", bind="e",
                   effects=extra.get("effects", [("trace", f"('{op}', self._key)")]),
                   fresh=extra.get("fresh", {}),
                   modifies=[RO, "ghost.cb_calls", "ghost.called", "self._callbacks"],
                   ensures=dict({
                       "callbacks_in_registration_order_store_in_place": "ghost.called == old(ghost.called) + exp",
                       "used": f"{RO} == True",
                       "success": f"e.success == ({default_success} if old({RS}) is None else old({RS}))",
                       "data": f"e.data == old({RD})",
                       "exception": f"e.exception == old({RE})",
                       "callbacks_ran": "ghost.cb_calls == old(ghost.cb_calls) + len(self._callbacks)",
                   }, **extra.get("ensures", {}))),
        ]
        db.contract(
            fn=MD + op, serves=["C16", "C02", "C13"] + extra.get("serves", []), clock=extra.get("clock", []),
            ghost_init={"trace": "events", "broker_fails": "bool", "cb_calls": "int", "callback_fails": "bool",
                        "called": "seq[func[Callback]]"},
            setup=lazy_state,
            requires=extra.get("requires", []), lets=dict(extra.get("lets", {}), exp="expected_callbacks(self)"),
            ensures={"never_returns_normally": "False"},
            raises=raises, modifies=[RO, "ghost.cb_calls", "ghost.called", "self._callbacks"],
        )

    eager("ack", [RO], "True")
    eager("nack", [NOT_NORMAL, RO], "False")
    eager("reject", [RO], "False")
    P = "self.parameters"
    eager("reschedule", [RO], "True", extra=dict(
        serves=["C06"], clock=["now", "now2"], requires=[f"P_next_ok({P})"],
        raises=[Raises("OverflowError", mode="may", ensures={"nothing_sent": "len(trace) == 0"},
                       when=f"periodic({P}, now) and not dt_in_range(now + {P}.delay.defer_by)")],
        fresh={"newp": ("Parameters", "trace[0][3]")},
        effects=[("trace", "('requeue', self._key, self.raw_payload, newp)")],
        ensures={"counter_reset": "newp.retries.already_tried == 0", "ttl_clock_restarted": "newp.timestamp == now2",
                 "rest": f"same_but_schedule(newp, {P})",
                 "future": f"implies(periodic({P}, now), now < newp.delay.next_execution_time"
                           f" and newp.delay.next_execution_time <= now + {P}.delay.defer_by)"}))
    for op, budget in (("retry", [f"{P}.retries.already_tried >= {P}.retries.max_amount"]), ("force_retry", [])):
        eager(op, [NOT_NORMAL, RO] + budget, "False", extra=dict(
            serves=["C04"], clock=["now"],
            lets={"delay_": f"policy(self._actor_data.retry_policy, {P}.retries.already_tried + 1) if next_retry is None else next_retry"},
            raises=[Raises("OverflowError", mode="may", when="not dt_in_range(now + delay_)",
                           ensures={"nothing_sent": "len(trace) == 0"})],
            fresh={"newp": ("Parameters", "trace[0][3]")},
            effects=[("trace", "('requeue', self._key, self.raw_payload, newp)")],
            ensures={"counter": f"newp.retries.already_tried == {P}.retries.already_tried + 1",
                     "backoff": "newp.delay.next_execution_time == now + delay_",
                     "ttl_clock_kept": f"newp.timestamp == {P}.timestamp",
                     "rest": f"same_but_schedule(newp, {P})"}))

    # ---- result setting
    db.ufun("exc_text", ["opaque"], "str")
    for op, arg in (("set_result", "result"), ("set_exception", "exc")):
        ok = op == "set_result"
        db.contract(
            fn=MD + op, serves=["C13", "C16"], binds={arg: "opaque"},
            raises=[Raises("ValueError", mode="iff",
                           when="self.parameters.result is None or self._connection.results_bucket_broker is None")]
            + ([Raises("Exception", mode="may", anysub=True)] if ok else []),
            ensures={"success": f"{RS} == {ok}",
                     "data": f"{RD} == conv_out(arg_result)" if ok else f"{RD} is None",
                     "exception": f"{RE} is None" if ok else f"{RE} == exc",
                     "callbacks_untouched": "self._callbacks == old(self._callbacks)",
                     "store_takes_this_place": f"is_insert_partial({LAZY}, self._callbacks)"
                                               f" and partial_arg({LAZY}, 0) == len(self._callbacks)"},
            modifies=[RS, RD, RE, "self._MessageDependency__lazy_result_callback"],
        )
        db.contract(
            fn=MD + op + ".<locals>._inner", serves=["C13"], clock=["t", "now"],
            binds={"self": "MessageDependency", "rbb": "ResultBucketBrokerT", **({"data": "str"} if ok else {"exc": "opaque"})},
            ghost_init={"trace": "events", "store_fails": "bool"},
            requires=["self.parameters.result is not None"],
            fresh={"bucket": ("ResultBucket", "trace[0][2]")},
            effects=[("trace", "('store_bucket', self.parameters.result.id_, bucket)")],
            ensures={"bucket": "bucket.success == %s and bucket.ttl == self.parameters.result.ttl"
                               " and bucket.started_when == self._actor_processing_started_when and bucket.timestamp == now"
                               " and %s" % (ok, "bucket.data == data and bucket.exception is None" if ok else
                                            "bucket.data == str(exc) and bucket.exception == type(exc).__name__")},
            raises=[Raises("Exception", mode="may", anysub=True, when="flag('store_fails')",
                           ensures={"nothing": "len(trace) == 0"})],
            modifies=[],
        )
    db.contract(fn=MD + "add_callback", serves=["C16"], binds={"fn": "opaque"},
                ensures={"appended": "len(self._callbacks) == len(old(self._callbacks)) + 1",
                         "prefix_kept": "self._callbacks[0:len(old(self._callbacks))] == old(self._callbacks)"},
                modifies=["self._callbacks"])
    db.prop_meta("C16", assumptions=["the lazily positioned store callable is `lambda: None` or partial(list.insert, n, store) "
                                     "with 0 <= n <= len(callbacks) (representation established by set_result/set_exception, "
                                     "which are verified to produce exactly that)"])
