"""Sidecar contracts for aleksul/repid.  Each module exposes register(db)."""
import importlib
import pkgutil


def load_all(db):
    import contracts
    for m in sorted(pkgutil.iter_modules(contracts.__path__), key=lambda m: m.name):
        mod = importlib.import_module(f"contracts.{m.name}")
        if hasattr(mod, "register"):
            mod.register(db)
    return db
