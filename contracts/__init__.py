"""Sidecar contracts for aleksul/repid.  Each module exposes register(db)."""
import importlib
import pkgutil


def load_all(db):
    import contracts
    for m in sorted(pkgutil.iter_modules(contracts.__path__), key=lambda m: m.name):
        mod = importlib.import_module(f"contracts.{m.name}")
        if hasattr(mod, "register"):
            mod.register(db)
    # second phase: adjustments that refer to contracts declared in other modules
    for m in sorted(pkgutil.iter_modules(contracts.__path__), key=lambda m: m.name):
        mod = importlib.import_module(f"contracts.{m.name}")
        if hasattr(mod, "finalize"):
            mod.finalize(db)
    return db
