"""C11 - routing: registrations, the topics-by-queue index, union of routers."""
from pyvc.spec import LoopInv, Raises

R = "repid/router.py::Router."
# every actor's topic is served by the actor's queue
SERVED = "forall_str(t, implies(t in r.actors, r.actors[t].queue in r.topics_by_queue and t in r.topics_by_queue[r.actors[t].queue]))"
# a queue serves a topic only for the actor registered under that name on that queue (no stale entries)
NO_STALE = ("forall_str(q, forall_str(t, implies(q in r.topics_by_queue and t in r.topics_by_queue[q],"
            " t in r.actors and r.actors[t].queue == q)))")


def register(db):
    db.shape("Router", {"actors": "map[str, sym[ActorData]]", "topics_by_queue": "defaultdict[str, set[str]]",
                        "defaults": "RouterDefaults"})
    db.shape("RouterDefaults", {"queue": "str", "retry_policy": "RetryPolicyT", "run_in_process": "bool",
                                "converter": "func[ConverterClass]"})
    db.contract(fn="ConverterClass.__call__", assumed=True, params=["fn", "f"], returns="ConverterT",
                raises=[Raises("ValueError", mode="may")],
                note="converter class applied to the actor function at declaration time (verified separately under C08/C18)")
    db.define("served(r)", SERVED)
    db.define("no_stale(r)", NO_STALE)
    NAME = "(name if (name is not None and name != '') else fn.__name__)"
    QUEUE = "(queue if (queue is not None and queue != '') else self.defaults.queue)"
    db.contract(
        fn=R + "actor", serves=["C11"],
        binds={"fn": "opaque", "name": "Optional[str]", "queue": "Optional[str]", "retry_policy": "Optional[RetryPolicyT]",
               "run_in_process": "Optional[bool]", "converter": "Optional[func[ConverterClass]]"},
        requires=["fn is not None", "served(self)", "no_stale(self)"],
        lets={"r": "self"},
        ensures={
            "registered_under_its_name": f"{NAME} in self.actors and self.actors[{NAME}].queue == {QUEUE}"
                                         f" and self.actors[{NAME}].name == {NAME}",
            "last_registration_wins_others_kept": f"forall_str(t, implies(t != {NAME}, (t in self.actors) == (t in old(self.actors))"
                                                  " and implies(t in self.actors, self.actors[t] == old(self.actors)[t])))",
            "served": "served(self)",
            "no_stale": "no_stale(self)",
        },
        raises=[Raises("ValueError", mode="may")],
        modifies=["self.actors", "self.topics_by_queue"], returns="opaque",
    )
    # ---- _forget_topic (added by the F11 fix): a name that moves to another queue leaves the topic set of its old queue,
    # and an old queue left without topics is dropped (a worker would otherwise consume everything from it)
    MOVES = "(name in old(self.actors) and old(self.actors)[name].queue != new_queue)"
    PAIR = lambda m, q, t: f"({q} in {m} and {t} in {m}[{q}])"     # noqa: E731
    TBQ, TBQ0 = "self.topics_by_queue", "old(self.topics_by_queue)"
    db.contract(
        fn=R + "_forget_topic", serves=["C11"], binds={"name": "str", "new_queue": "str"},
        ensures={
            "only_that_pair_goes": f"forall_str(q, forall_str(t, {PAIR(TBQ, 'q', 't')} == ({PAIR(TBQ0, 'q', 't')}"
                                   f" and not ({MOVES} and q == old(self.actors)[name].queue and t == name))))",
            "no_queue_left_without_topics": f"forall_str(q, implies(q in {TBQ} and q not in {TBQ0}, False))"
                                            f" and implies({MOVES} and old(self.actors)[name].queue in {TBQ},"
                                            f" nonempty({TBQ}[old(self.actors)[name].queue]))",
        },
        raises=[], modifies=["self.topics_by_queue"],
    )
    SA0 = "old(self.actors)"
    FORGOTTEN = lambda t: (f"({t} in {SA0} and {t} in router.actors and router.actors[{t}].queue != {SA0}[{t}].queue)")   # noqa: E731
    db.contract(
        fn=R + "include_router", serves=["C11"], binds={"router": "Router"},
        requires=["served(self)", "no_stale(self)", "served(router)", "no_stale(router)"],
        lets={"r": "self"},
        ensures={
            "union_last_wins": "forall_str(t, (t in self.actors) == (t in old(self.actors) or t in router.actors)"
                               " and implies(t in router.actors, self.actors[t] == router.actors[t])"
                               " and implies(t in old(self.actors) and t not in router.actors, self.actors[t] == old(self.actors)[t]))",
            "served": "served(self)",
            "no_stale": "no_stale(self)",
        },
        loops={0: LoopInv(header="for (name, actor) in router.actors.items()",
                          ghost={"visited": "W"},
                          invariant={"forgotten_so_far": f"forall_str(q, forall_str(t, {PAIR(TBQ, 'q', 't')} == ({PAIR(TBQ0, 'q', 't')}"
                                                         f" and not (t in W and {FORGOTTEN('t')} and q == {SA0}[t].queue))))",
                                     "actors_untouched": "self.actors == old(self.actors)"},
                          modifies={"self.topics_by_queue": None}),
               1: LoopInv(header="for (queue_name, topics) in router.topics_by_queue.items()",
                          ghost={"visited": "V", "vars": {"snap_actors": ("map", "snap(self.actors)")}},
                          invariant={"union_so_far": f"forall_str(q, forall_str(t, {PAIR(TBQ, 'q', 't')}"
                                                     f" == (({PAIR(TBQ0, 'q', 't')} and not ({FORGOTTEN('t')} and q == {SA0}[t].queue))"
                                                     " or (q in V and t in router.topics_by_queue[q]))))",
                                     "actors_fixed": "self.actors == snap_actors"},
                          modifies={"self.topics_by_queue": None})},
        raises=[], modifies=["self.actors", "self.topics_by_queue"],
    )
    db.prop_meta("C11", not_decided=["availability of foreign messages to *other* workers (multi-process)",
                                     "RabbitMQ / Redis consumers' topic filters are decided in c12_*/c01_* contracts"])
