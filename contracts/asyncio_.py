"""Assumed contracts of the asyncio primitives the runner uses (DESIGN.md 2.5)."""
from pyvc.spec import Raises


def register(db):
    db.shape("Semaphore", {"_value": "int"})
    db.contract(fn="Semaphore.locked", assumed=True, params=["self"], returns="bool",
                ensures={"zero_is_locked": "implies(self._value == 0, result)",
                         "free_needs_value": "implies(not result, self._value > 0)"},
                note="asyncio.Semaphore.locked(): true when no slot is free (or waiters are queued)")
    db.contract(fn="Semaphore.acquire", assumed=True, is_async=True, params=["self"], returns="bool",
                modifies=["self._value", "ghost.reserved", "ghost.my_slots"],
                ensures={"had_slot": "old(self._value) > 0", "took_it": "self._value == old(self._value) - 1",
                         "reserved": "ghost.reserved == old(ghost.reserved) + 1",
                         "mine": "ghost.my_slots == old(ghost.my_slots) + 1"},
                note="asyncio.Semaphore.acquire(): suspends until _value > 0, then decrements atomically; the ghost "
                     "`reserved` counts slots taken and not yet handed to a processing task")
    db.contract(fn="Semaphore.release", assumed=True, params=["self"], modifies=["self._value"],
                ensures={"freed": "self._value == old(self._value) + 1"})
    db.shape("Event", {"_flag": "bool"})
    db.contract(fn="Event.set", assumed=True, params=["self"], modifies=["self._flag"], ensures={"set": "self._flag == True"})
    db.contract(fn="Event.is_set", assumed=True, params=["self"], returns="bool", ensures={"flag": "result == self._flag"})
    db.contract(fn="Event.wait", assumed=True, is_async=True, params=["self"], ensures={"set": "self._flag == True"})
    db.shape("Task", {})
    db.shape("TaskSet", {"n": "int"})
    db.contract(fn="TaskSet.add", assumed=True, params=["self", "t"], modifies=["self.n"], ensures={"n": "self.n == old(self.n) + 1"},
                note="set.add of a task that has just been created (not yet a member)")
    db.contract(fn="TaskSet.discard", assumed=True, params=["self", "t"], modifies=["self.n"], ensures={"n": "self.n == old(self.n) - 1"},
                note="set.discard in the done-callback of a task that was added when it was created (a member)")
    db.contract(fn="TaskSet.__len__", assumed=True, params=["self"], returns="int", ensures={"n": "result == self.n"})
    # a finished task as seen from its done-callback: it may have ended normally, with an exception, or cancelled
    db.contract(fn="Task.exception", assumed=True, params=["self"], returns="Optional[opaque]",
                raises=[Raises("CancelledError", mode="may")],
                note="Task.exception(): raises CancelledError when the task was cancelled (InvalidStateError if not done)")
    db.contract(fn="Task.result", assumed=True, params=["self"], returns="opaque",
                raises=[Raises("CancelledError", mode="may"), Raises("Exception", mode="may", anysub=True)],
                note="Task.result(): re-raises the task's exception / CancelledError")
    db.contract(fn="Task.cancelled", assumed=True, params=["self"], returns="bool")
    db.contract(fn="Task.done", assumed=True, params=["self"], returns="bool")
    db.contract(fn="Task.add_done_callback", assumed=True, params=["self", "cb"],
                note="the callback runs exactly once, after the task has finished (rely of the runner invariant)")
