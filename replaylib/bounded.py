"""Bounded stand-ins (runs under /venv/bin/python): exhaustive enumeration of small states for functions whose
contract could not be discharged deductively.  Results are labelled *bounded* and never counted as proved.

usage: bounded.py <check-name> <repo-root> <tier>   -> JSON on stdout
"""
from __future__ import annotations

import asyncio
import itertools
import json
import sys
from datetime import datetime, timedelta


def _mk_consumer(repo_root):
    sys.path.insert(0, repo_root)
    from repid.connections.in_memory.consumer import _InMemoryConsumer
    from repid.connections.in_memory.message_broker import InMemoryMessageBroker
    from repid.connections.in_memory.utils import DummyQueue, Message
    from repid.data._key import RoutingKey
    from repid.data._parameters import Parameters
    return _InMemoryConsumer, InMemoryMessageBroker, DummyQueue, Message, RoutingKey, Parameters


def inmem_update_delayed(repo_root, tier):
    """_InMemoryConsumer.__update_delayed against the clauses of its sidecar contract.
    bound: <= 3 delayed entries (in every insertion order) with due times from a 7-point grid around `now`, each list of 1..2 messages,
    0..2 messages already waiting (quick: lists of 1 message)."""
    Cons, Broker, DummyQueue, Message, RoutingKey, Parameters = _mk_consumer(repo_root)
    import repid.connections.in_memory.consumer as mod
    now = datetime(2024, 1, 1, 12, 0, 0)
    ms, sec = timedelta(milliseconds=1), timedelta(seconds=1)
    grid = [now - 5 * sec, now - sec, now - timedelta(microseconds=1), now, now + timedelta(microseconds=1), now + ms,
            now + 5 * sec]

    class Pinned(datetime):
        @classmethod
        def now(cls, tz=None):
            return now
    mod.datetime = Pinned
    evaluations, failures = 0, []
    maxlist = 1 if tier == "quick" else 2
    counter = itertools.count()

    def msg():
        i = next(counter)
        return Message(RoutingKey(topic="t", id_=f"m{i}"), f"p{i}", Parameters())

    async def run_case(times, sizes, waiting):
        broker = Broker()
        q = DummyQueue()
        broker.queues["q"] = q
        for _ in range(waiting):
            q.simple.put_nowait(msg())
        d0 = {}
        for t, n in zip(times, sizes):
            d0[t] = [msg() for _ in range(n)]
        q.delayed = {t: list(lst0) for t, lst0 in d0.items()}
        s0 = list(q.simple._queue)
        dead0, proc0 = list(q.dead), set(q.processing)
        cons = Cons(broker, "q", None)
        getattr(cons, "_InMemoryConsumer__update_delayed")()
        s1 = list(q.simple._queue)
        errs = []
        # from the property: never early at millisecond resolution; overdue by a polling period => moved
        may_move = [m for t, lst in d0.items() if t < now + ms for m in lst]
        must_move = [m for t, lst in d0.items() if t <= now - sec for m in lst]
        moved = [m for m in s1 if m not in s0]
        if not all(m in may_move for m in moved):
            errs.append("never_early")
        if not all(m in s1 for m in must_move):
            errs.append("none_forgotten")
        for t, lst in d0.items():
            gone = t not in q.delayed
            if gone != all(m in moved for m in lst) or (not gone and (q.delayed[t] != lst or any(m in moved for m in lst))):
                errs.append("moved_iff_left_delayed")
        if any(t not in d0 for t in q.delayed):
            errs.append("no_new_delayed_entries")
        if s1[:len(s0)] != s0:
            errs.append("waiting_order_kept")
        if len(moved) != len(set(map(id, moved))):
            errs.append("no_duplicates")
        # C15: the messages of one due time enter the waiting queue in the order they were enqueued
        for t, lst in d0.items():
            pos = [s1.index(m) for m in lst if m in s1]
            if pos != sorted(pos):
                errs.append("bucket_order_kept")
        if list(q.dead) != dead0 or set(q.processing) != proc0:
            errs.append("frame")
        # single_copy_kept (the clauses the proof leaves to this stand-in): every message is in exactly one place, once
        everywhere = list(q.simple._queue) + [m for lst in q.delayed.values() for m in lst] + list(q.dead) + list(q.processing)
        if len(everywhere) != len(set(map(id, everywhere))):
            errs.append("single_copy_kept")
        return errs

    for k in range(0, 4):
        for times in itertools.permutations(grid, k):       # every insertion order of the dict, not only ascending
            for sizes in itertools.product(range(1, (2 if k <= 2 else maxlist) + 1), repeat=k):
                for waiting in range(0, 3):
                    evaluations += 1
                    errs = asyncio.run(run_case(times, sizes, waiting))
                    if errs:
                        failures.append({"clauses": errs, "due_times_us_from_now": [int((t - now).total_seconds() * 1e6) for t in times],
                                         "list_sizes": list(sizes), "waiting": waiting})
    return {"name": "inmem_update_delayed", "fn": "repid/connections/in_memory/consumer.py::_InMemoryConsumer.__update_delayed",
            "bound": f"<=3 delayed entries on a 7-point grid around now, lists of <= {maxlist} (<= 2 when there are at most two entries), <= 2 waiting",
            "evaluations": evaluations, "failures": failures[:5], "n_failures": len(failures)}


CHECKS = {"inmem_update_delayed": inmem_update_delayed}

if __name__ == "__main__":
    name, root, tier = sys.argv[1], sys.argv[2], sys.argv[3]
    try:
        print(json.dumps(CHECKS[name](root, tier)))
    except Exception as exc:  # noqa: BLE001
        import traceback
        print(json.dumps({"name": name, "error": f"{type(exc).__name__}: {exc}", "trace": traceback.format_exc()}))
        sys.exit(2)
