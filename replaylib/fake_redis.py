"""A minimal in-process stand-in for redis.asyncio.Redis, enough to drive the REAL RedisMessageBroker and
_RedisConsumer of /repo offline (lists, sorted sets, hashes, MULTI/EXEC pipelines).  Used by native demos and
replays only - the proofs use the command model in pyvc/redis_model.py, and this file is what that model is
cross-checked against (tools/redis_model_check.py).

Every awaited command yields to the event loop once (await asyncio.sleep(0)) so interleavings between
consumers are observable.
"""
from __future__ import annotations

import asyncio


def _b(x):
    if isinstance(x, bytes):
        return x
    if isinstance(x, (int, float)):
        return str(x).encode()
    return str(x).encode()


class FakeRedis:
    def __init__(self):
        self.lists: dict[str, list[bytes]] = {}
        self.zsets: dict[str, dict[bytes, float]] = {}
        self.hashes: dict[str, dict[bytes, bytes]] = {}
        self.log: list[tuple] = []

    # ---- synchronous cores (shared by the client and the pipeline)
    def _lpush(self, k, *vs):
        l = self.lists.setdefault(k, [])
        for v in vs:
            l.insert(0, _b(v))
        return len(l)

    def _rpush(self, k, *vs):
        l = self.lists.setdefault(k, [])
        for v in vs:
            l.append(_b(v))
        return len(l)

    def _lrem(self, k, count, v):
        l = self.lists.get(k, [])
        v = _b(v)
        removed = 0
        idxs = range(len(l) - 1, -1, -1) if count < 0 else range(len(l))
        limit = abs(count) if count else len(l)
        hit = []
        for i in idxs:
            if l[i] == v and removed < limit:
                hit.append(i)
                removed += 1
        for i in sorted(hit, reverse=True):
            del l[i]
        if not l:
            self.lists.pop(k, None)
        return removed

    def _lrange(self, k, start, stop):
        l = self.lists.get(k, [])
        n = len(l)
        if start < 0:
            start = max(n + start, 0)
        if stop < 0:
            stop = n + stop
        stop = min(stop, n - 1)
        if start > stop or start >= n:
            return []
        return list(l[start:stop + 1])

    def _zadd(self, k, mapping, nx=False, **_kw):
        z = self.zsets.setdefault(k, {})
        added = 0
        for m, s in mapping.items():
            m = _b(m)
            if m in z and nx:
                continue
            if m not in z:
                added += 1
            z[m] = float(s)
        return added

    def _zrem(self, k, *ms):
        z = self.zsets.get(k, {})
        n = 0
        for m in ms:
            if z.pop(_b(m), None) is not None:
                n += 1
        if not z:
            self.zsets.pop(k, None)
        return n

    def _zrange(self, k, start, end, byscore=False, offset=None, num=None, withscores=False, **_kw):
        z = self.zsets.get(k, {})
        ordered = sorted(z.items(), key=lambda kv: (kv[1], kv[0]))
        if byscore:
            lo = float("-inf") if start in ("-inf", b"-inf") else float(start)
            hi = float("inf") if end in ("+inf", "inf", b"+inf") else float(end)
            sel = [(m, s) for m, s in ordered if lo <= s <= hi]
            if offset is not None:
                sel = sel[offset:offset + num] if num is not None and num >= 0 else sel[offset:]
        else:
            n = len(ordered)
            a = max(n + start, 0) if start < 0 else start
            b = n + end if end < 0 else min(end, n - 1)
            sel = ordered[a:b + 1] if a <= b else []
        return [(m, s) for m, s in sel] if withscores else [m for m, _ in sel]

    def _hset(self, k, key=None, value=None, mapping=None, **_kw):
        h = self.hashes.setdefault(k, {})
        n = 0
        items = dict(mapping or {})
        if key is not None:
            items[key] = value
        for f, v in items.items():
            if _b(f) not in h:
                n += 1
            h[_b(f)] = _b(v)
        return n

    def _hsetnx(self, k, key, value):
        h = self.hashes.setdefault(k, {})
        if _b(key) in h:
            return 0
        h[_b(key)] = _b(value)
        return 1

    def _hdel(self, k, *fs):
        h = self.hashes.get(k, {})
        n = sum(1 for f in fs if h.pop(_b(f), None) is not None)
        if not h:
            self.hashes.pop(k, None)
        return n

    def _delete(self, *ks):
        n = 0
        for k in ks:
            for d in (self.lists, self.zsets, self.hashes):
                if d.pop(k, None) is not None:
                    n += 1
        return n

    # ---- awaited client commands
    async def _tick(self, name, *a):
        self.log.append((name, *a))
        await asyncio.sleep(0)

    async def lrange(self, k, start, stop):
        await self._tick("lrange", k, start, stop)
        return self._lrange(k, start, stop)

    async def zrange(self, k, start=0, end=-1, **kw):
        await self._tick("zrange", k, start, end)
        return self._zrange(k, start, end, **kw)

    async def hget(self, k, f):
        await self._tick("hget", k, f)
        return self.hashes.get(k, {}).get(_b(f))

    async def hmget(self, k, fs, *more):
        fs = list(fs) if isinstance(fs, (list, tuple)) else [fs]
        fs += list(more)
        await self._tick("hmget", k, tuple(fs))
        h = self.hashes.get(k, {})
        return [h.get(_b(f)) for f in fs]

    async def hgetall(self, k):
        await self._tick("hgetall", k)
        return dict(self.hashes.get(k, {}))

    async def exists(self, *ks):
        await self._tick("exists", ks)
        return sum(1 for k in ks if k in self.lists or k in self.zsets or k in self.hashes)

    async def llen(self, k):
        await self._tick("llen", k)
        return len(self.lists.get(k, []))

    async def zcard(self, k):
        await self._tick("zcard", k)
        return len(self.zsets.get(k, {}))

    async def delete(self, *ks):
        await self._tick("delete", ks)
        return self._delete(*ks)

    async def scan_iter(self, match=None, **_kw):  # pragma: no cover
        import fnmatch
        for k in list(self.lists) + list(self.zsets) + list(self.hashes):
            if match is None or fnmatch.fnmatch(k, match):
                yield k.encode()

    async def ping(self):
        return True

    async def aclose(self, *a, **kw):
        return None

    close = aclose

    def pipeline(self, transaction=True):
        return FakePipeline(self)


class FakePipeline:
    def __init__(self, r: FakeRedis):
        self.r = r
        self.queued: list = []

    async def __aenter__(self):
        return self

    async def __aexit__(self, *exc):
        self.queued = []
        return False

    def __getattr__(self, name):
        core = getattr(self.r, "_" + name, None)
        if core is None:
            raise AttributeError(name)

        def queue(*a, **kw):
            self.queued.append((core, a, kw))
            return self

        return queue

    async def execute(self):
        await asyncio.sleep(0)
        q, self.queued = self.queued, []
        self.r.log.append(("exec", len(q)))
        return [core(*a, **kw) for core, a, kw in q]      # MULTI/EXEC: applied atomically, no yield in between
