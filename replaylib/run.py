"""Native replay of a failed obligation (runs under /venv/bin/python, which has repid installed).

usage: run.py <replay.json>      exit 1: the violation reproduces on the real code
                                 exit 0: the clause holds natively for these inputs (not reproduced)
                                 exit 2: this obligation cannot be replayed generically
"""
from __future__ import annotations

import ast
import asyncio
import copy
import dataclasses
import importlib
import inspect
import json
import sys
import traceback
from datetime import datetime, timedelta


class CannotReplay(Exception):
    pass


DT_MIN = datetime.min
DT_MAX_US = 315537897599999999


def from_us_dt(v):
    return DT_MIN + timedelta(microseconds=v)


def mval(model, name, default=None):
    return model.get(name, default)


class Opaque:
    def __init__(self, name):
        self.name = name

    def __repr__(self):
        return f"<opaque {self.name}>"


class RecordingStub:
    """stands in for an abstract collaborator (broker, bucket broker, ...): records every call"""

    def __init__(self, name, trace, fields=None):
        object.__setattr__(self, "_name", name)
        object.__setattr__(self, "_trace", trace)
        for k, v in (fields or {}).items():
            object.__setattr__(self, k, v)

    def __getattr__(self, attr):
        if attr.startswith("__"):
            raise AttributeError(attr)

        def method(*a, **kw):
            ev = (attr, *a, *kw.values())
            self._trace.append(ev)

            async def _aw():
                return None
            return _aw()
        return method


def build(tree, name, model, ctx):
    k = tree["k"]
    if k == "int":
        return int(mval(model, name, 0))
    if k == "bool":
        return bool(mval(model, name, False))
    if k == "str":
        return str(mval(model, name, ""))
    if k == "float":
        v = mval(model, name, 0)
        if isinstance(v, dict):
            return v["num"] / v["den"]
        return float(v)
    if k == "td":
        return timedelta(microseconds=int(mval(model, name, 0)))
    if k == "dt":
        return from_us_dt(int(mval(model, name, 0)))
    if k == "none":
        return None
    if k == "opt":
        if mval(model, name + "?none", True):
            return None
        return build(tree["of"], name, model, ctx)
    if k == "enum":
        mod = importlib.import_module(tree["module"])
        cls = getattr(mod, tree["cls"])
        return list(cls)[int(mval(model, name, 0))]
    if k == "opaque":
        return Opaque(name)
    if k == "tuple":
        return tuple(build(t, f"{name}[{i}]", model, ctx) for i, t in enumerate(tree["items"]))
    if k == "obj":
        if tree.get("module") is None:
            return RecordingStub(tree["cls"], ctx["trace"],
                                 {f: build(t, f"{name}.{f}", model, ctx) for f, t in tree["fields"].items()})
        mod = importlib.import_module(tree["module"])
        cls = getattr(mod, tree["cls"])
        if inspect.isabstract(cls):
            return RecordingStub(tree["cls"], ctx["trace"],
                                 {f: build(t, f"{name}.{f}", model, ctx) for f, t in tree["fields"].items()})
        o = object.__new__(cls)
        for f, t in tree["fields"].items():
            object.__setattr__(o, f, build(t, f"{name}.{f}", model, ctx))
        return o
    raise CannotReplay(f"cannot build a native value of kind {k} for {name}")


# ------------------------------------------------------------------ spec shim
def implies(a, b):
    return (not a) or b


def iff(a, b):
    return bool(a) == bool(b)


def ite(c, a, b):
    return a if c else b


def dt_in_range(x):
    return True   # a native datetime is always in range


def td_in_range(x):
    return True


def us(x):
    if isinstance(x, timedelta):
        return x // timedelta(microseconds=1)
    return (x - DT_MIN) // timedelta(microseconds=1)


class LazyImplies(ast.NodeTransformer):
    """implies(a, b) -> ((not a) or b) so that b is not evaluated when a is false; old(e) -> __old__(index)"""

    def __init__(self):
        self.olds = []

    def visit_Call(self, node):
        self.generic_visit(node)
        if isinstance(node.func, ast.Name) and node.func.id == "implies" and len(node.args) == 2:
            return ast.BoolOp(op=ast.Or(), values=[ast.UnaryOp(op=ast.Not(), operand=node.args[0]), node.args[1]])
        if isinstance(node.func, ast.Name) and node.func.id == "old" and len(node.args) == 1:
            self.olds.append(node.args[0])
            return ast.Subscript(value=ast.Name(id="__old__", ctx=ast.Load()),
                                 slice=ast.Constant(value=len(self.olds) - 1), ctx=ast.Load())
        return node


def make_env(rep, extra):
    env = {"implies": implies, "iff": iff, "ite": ite, "dt_in_range": dt_in_range, "td_in_range": td_in_range,
           "us": us, "timedelta": timedelta, "datetime": datetime, "len": len, "min": min, "max": max,
           "isinstance": isinstance, "str": str, "int": int, "type": type}
    env.update(extra)
    for name, (params, body) in rep.get("defines", {}).items():
        env[name] = make_define(name, params, body, env)
    return env


def make_define(name, params, body, env):
    tr = LazyImplies()
    tree = ast.fix_missing_locations(ast.Expression(tr.visit(ast.parse(body, mode="eval").body)))
    code = compile(tree, f"<define {name}>", "eval")

    def fn(*args):
        local = dict(env)
        local.update(zip(params, args))
        return eval(code, local)
    return fn


def eval_clause(expr, env, old_env):
    tr = LazyImplies()
    tree = ast.fix_missing_locations(ast.Expression(tr.visit(ast.parse(expr, mode="eval").body)))
    olds = []
    for o in tr.olds:
        code = compile(ast.fix_missing_locations(ast.Expression(o)), "<old>", "eval")
        olds.append(eval(code, dict(old_env)))
    env = dict(env)
    env["__old__"] = olds
    return eval(compile(tree, "<clause>", "eval"), env)


# ------------------------------------------------------------------ clock
def pin_clock(module, readings):
    """rebind the module-level names `datetime` / `time` of the module under replay (this process only)"""
    state = {"i": 0}

    def next_us():
        i = min(state["i"], len(readings) - 1) if readings else 0
        state["i"] += 1
        return readings[i] if readings else us(datetime.now())

    class PinnedDatetime(datetime):
        @classmethod
        def now(cls, tz=None):
            return from_us_dt(next_us())

    if hasattr(module, "datetime") and isinstance(module.datetime, type) and issubclass(module.datetime, datetime):
        module.datetime = PinnedDatetime
    if hasattr(module, "time") and (inspect.ismodule(module.time) or getattr(module.time, "_pinned", False)):
        import types
        fake = types.SimpleNamespace(
            _pinned=True,
            time=lambda: (next_us() - 62135596800 * 10**6) / 10**6,
            time_ns=lambda: (next_us() - 62135596800 * 10**6) * 1000,
        )
        module.time = fake


def locate(module, qualname, args):
    parts = qualname.split(".")
    if "<locals>" in parts:
        i = parts.index("<locals>")
        outer = module
        for p in parts[:i]:
            outer = getattr(outer, p)
        sig = inspect.signature(outer)
        kw = {k: args.pop(k) for k in list(args) if k in sig.parameters}
        inner = outer(**kw)
        if not callable(inner) or getattr(inner, "__name__", None) != parts[-1]:
            raise CannotReplay(f"cannot obtain the closure {qualname}")
        return inner, None
    obj = module
    owner = None
    for p in parts:
        owner = obj
        obj = inspect.getattr_static(obj, p) if inspect.isclass(obj) else getattr(obj, p)
    return obj, owner


def run_case(rep, model, clauses):
    """one sampled input: run the real function, evaluate every clause natively.
    returns {clause: True/False/'skip:<why>'} and the outcome"""
    modname = rep["fn"].split("::")[0][:-3].replace("/", ".")
    qual = rep["fn"].split("::")[1]
    module = importlib.import_module(modname)
    ctx = {"trace": []}
    args = {p: build(t, p, model, ctx) for p, t in rep["schema"].items()}
    pre = copy.deepcopy({k: v for k, v in args.items() if not isinstance(v, RecordingStub)})
    readings = model.get("__clock__", [])
    pin_clock(module, readings)
    callargs = dict(args)
    fn, owner = locate(module, qual, callargs)
    result, raised = None, None
    try:
        if isinstance(fn, property):
            result = fn.fget(callargs["self"])
        else:
            if isinstance(fn, (staticmethod, classmethod)):
                fn = fn.__func__
            result = fn(**callargs)
            if inspect.iscoroutine(result):
                result = asyncio.run(result)
    except BaseException as exc:  # noqa: BLE001
        raised = exc
    env_extra = dict(args)
    for i, cn in enumerate(rep.get("clock", [])):
        env_extra[cn] = from_us_dt(readings[i]) if i < len(readings) else from_us_dt(readings[-1]) if readings else datetime.now()
    env_extra["result"] = result
    env_extra["trace"] = tuple(ctx["trace"])
    env = make_env(rep, env_extra)
    old_env = make_env(rep, {**pre, **{cn: env_extra[cn] for cn in rep.get("clock", [])}})
    out = {}
    if raised is not None:
        return {"__raised__": type(raised).__name__}, raised
    for name, expr in clauses.items():
        try:
            out[name] = bool(eval_clause(expr, env, old_env))
        except Exception as exc:  # noqa: BLE001
            out[name] = f"skip:{type(exc).__name__}"
    return out, None


def batch(path):
    """cross-check: many sampled inputs for one function (thorough tier)"""
    rep = json.load(open(path))
    sys.path.insert(0, rep.get("repo_root", "/repo"))
    results = []
    for model in rep["models"]:
        try:
            res, raised = run_case(rep, model, rep["clauses"])
        except CannotReplay as exc:
            res = {"__cannot__": str(exc)}
        except Exception as exc:  # noqa: BLE001
            res = {"__error__": f"{type(exc).__name__}: {exc}"}
        results.append(res)
    print(json.dumps(results))
    return 0


def main(path):
    rep = json.load(open(path))
    if "models" in rep:
        return batch(path)
    sys.path.insert(0, rep.get("repo_root", "/repo"))
    model = rep.get("model") or {}
    if not rep.get("schema"):
        raise CannotReplay("no input schema (obligation has no concrete inputs)")
    modname = rep["fn"].split("::")[0][:-3].replace("/", ".")
    qual = rep["fn"].split("::")[1]
    module = importlib.import_module(modname)
    ctx = {"trace": []}
    args = {p: build(t, p, model, ctx) for p, t in rep["schema"].items()}
    pre = copy.deepcopy({k: v for k, v in args.items() if not isinstance(v, RecordingStub)})
    readings = [model[k] for k in sorted((k for k in model if k.startswith("clock[")), key=lambda s: int(s[6:-1]))]
    pin_clock(module, readings)
    callargs = dict(args)
    fn, owner = locate(module, qual, callargs)
    result, raised = None, None
    try:
        if isinstance(fn, property):
            result = fn.fget(callargs["self"])
        else:
            if isinstance(fn, (staticmethod, classmethod)):
                fn = fn.__func__
            result = fn(**callargs)
            if inspect.iscoroutine(result):
                result = asyncio.run(result)
    except BaseException as exc:  # noqa: BLE001
        raised = exc
    env_extra = dict(args)
    for i, cn in enumerate(rep.get("clock", [])):
        env_extra[cn] = from_us_dt(readings[i]) if i < len(readings) else datetime.now()
    env_extra["result"] = result
    env_extra["trace"] = tuple(ctx["trace"])
    env = make_env(rep, env_extra)
    old_env = make_env(rep, {**pre, **{cn: env_extra[cn] for cn in rep.get("clock", [])}})
    ob = rep["obligation"]
    kind = ob.split(":")[0]
    print(f"replay {rep['fn']} obligation {ob}")
    print(f"  inputs: { {k: repr(v)[:80] for k, v in args.items()} }")
    print(f"  result: {result!r} raised: {raised!r}")
    if kind == "ensures":
        if raised is not None:
            print("  the model's path returned normally but the native run raised: not reproduced as stated")
            return 0
        ok = eval_clause(rep["clause"], env, old_env)
        print(f"  clause `{rep['clause']}` evaluates to {ok}")
        return 0 if ok else 1
    if kind in ("no-unexpected-exception", "raises-when"):
        exc_name = ob.split(":")[1]
        if raised is not None and any(c.__name__ == exc_name for c in type(raised).__mro__):
            if kind == "raises-when" and rep.get("clause"):
                try:
                    cond = eval_clause(rep["clause"], env, old_env)
                except Exception:  # noqa: BLE001
                    cond = False
                print(f"  raised {exc_name}; declared condition evaluates to {cond}")
                return 0 if cond else 1
            print(f"  undeclared {exc_name} reproduced: {raised!r}")
            return 1
        return 0
    if kind == "raises-iff":
        return 1 if raised is None else 0
    raise CannotReplay(f"no generic replay for obligation kind {kind}")


if __name__ == "__main__":
    try:
        sys.exit(main(sys.argv[1]))
    except CannotReplay as exc:
        print(f"cannot replay: {exc}")
        sys.exit(2)
    except Exception:  # noqa: BLE001
        traceback.print_exc()
        sys.exit(2)
