#!/usr/bin/env python3
"""Confirms a seeded change produced by a sub-agent in its scratch worktree and files it under /verif/seeded/<name>/.
usage: verify_seed.py <worktree> <property> <name> [extra properties to check...]"""
import json
import os
import shutil
import subprocess
import sys

wt, prop, name = sys.argv[1], sys.argv[2], sys.argv[3]
others = sys.argv[4:]
seed = os.path.join(wt, "_seed")
env = dict(os.environ, PYTHONPATH=wt)
demo = next(f for f in ("demo.py", "test_demo.py") if os.path.exists(os.path.join(seed, f)))


def run(cmd, **kw):
    p = subprocess.run(cmd, shell=True, capture_output=True, text=True, **kw)
    return p.returncode, (p.stdout + p.stderr)[-1500:]


def run_demo():
    if demo.startswith("test_"):
        return run(f"cd {wt} && /venv/bin/python -m pytest -q -p no:cacheprovider {seed}/{demo}", env=env)
    return run(f"cd {wt} && /venv/bin/python {seed}/{demo}", env=env)


res = {"property": prop, "name": name}
rc, out = run(f"cd {wt} && /venv/bin/python -c 'import repid; print(repid.__file__)'", env=env)
res["imports_worktree_copy"] = out.strip().startswith(wt)
rc, out = run(f"cd {wt} && /venv/bin/python -m pytest -q -p no:cacheprovider --timeout=900 --continue-on-collection-errors "
              f"--deselect tests/test_hypothesis.py::test_job_creation --ignore=tests/integration", env=env)
res["suite_with_change"] = out.strip().splitlines()[-1]
res["suite_passes_with_change"] = rc == 0
rc1, out1 = run_demo()
res["demo_with_change_exit"] = rc1
run(f"git -C {wt} diff -- repid > {wt}/_cur.diff && git -C {wt} apply -R {wt}/_cur.diff")
rc0, out0 = run_demo()
run(f"git -C {wt} apply {wt}/_cur.diff")
res["demo_without_change_exit"] = rc0
res["demo_output_with_change"] = out1[-600:]
checks = {}
for p in [prop] + others:
    rc, out = run(f"cd /verif && PYVC_NO_EVIDENCE=1 python3-vt -m pyvc check {p} --repo {wt}")
    checks[p] = {"exit": rc, "lines": [l for l in out.splitlines() if l.startswith("VIOLATION") or "failed obligation" in l][:6]}
res["pyvc"] = checks
res["confirmed"] = bool(res["imports_worktree_copy"] and res["suite_passes_with_change"] and rc1 != 0 and rc0 == 0)
dst = os.path.join("/verif/seeded", name)
os.makedirs(dst, exist_ok=True)
for f in os.listdir(seed):
    if os.path.isfile(os.path.join(seed, f)):
        shutil.copy(os.path.join(seed, f), os.path.join(dst, f))
meta_path = os.path.join(dst, "meta.json")
meta = {}
if os.path.exists(meta_path):
    try:
        meta = json.load(open(meta_path))
    except Exception:
        meta = {"agent_meta_unparsed": open(meta_path).read()[:2000]}
meta["verified_by_main_session"] = res
json.dump(meta, open(meta_path, "w"), indent=1)
print(json.dumps({k: v for k, v in res.items() if k != "demo_output_with_change"}, indent=1))
