#!/bin/bash
# runs every claimed check (quick tier) in parallel and prints one line per property
cd /verif
props=$(python3 -c "import json; print(' '.join(c['property_id'] for c in json.load(open('MANIFEST.json'))['checks']))")
mkdir -p out/runall
for p in $props; do
  ( timeout 1500 python3-vt -m pyvc check $p --tier quick > out/runall/$p.txt 2>&1; echo "$p exit=$? $(grep '^property' out/runall/$p.txt | cut -c1-110)" ) &
  while [ $(jobs -r | wc -l) -ge 4 ]; do sleep 1; done
done
wait
