#!/usr/bin/env python3
"""Re-runs every seeded change under /verif/seeded against the current checks: applies patch.diff to a scratch copy of
/repo (mktemp, removed afterwards) and runs the quick check of the seed's property with --repo.  usage: run_seeds.py [name...]"""
import json
import os
import shutil
import subprocess
import sys
import tempfile
from concurrent.futures import ThreadPoolExecutor

HERE = os.path.dirname(os.path.dirname(os.path.abspath(__file__)))


def run(name):
    d = os.path.join(HERE, "seeded", name)
    meta = json.load(open(os.path.join(d, "meta.json")))
    prop = meta.get("property") or name.split("_")[0]
    tmp = tempfile.mkdtemp(prefix="pyvc_seed_")
    try:
        shutil.copytree("/repo/repid", os.path.join(tmp, "repid"))
        p = subprocess.run(["git", "apply", "--unsafe-paths", f"--directory={tmp}", os.path.join(d, "patch.diff")],
                           capture_output=True, text=True, cwd=tmp)
        if p.returncode != 0:
            p = subprocess.run(["patch", "-p1", "-d", tmp, "-i", os.path.join(d, "patch.diff")], capture_output=True, text=True)
            if p.returncode != 0:
                return name, prop, "PATCH-FAILED", p.stdout[-300:] + p.stderr[-300:]
        out = subprocess.run(["python3-vt", "-m", "pyvc", "check", prop, "--repo", tmp], cwd=HERE, capture_output=True, text=True,
                             env=dict(os.environ, PYVC_NO_EVIDENCE="1"))
        lines = [l for l in out.stdout.splitlines() if "failed obligation" in l]
        return name, prop, out.returncode, "; ".join(l.strip()[18:120] for l in lines[:3])
    finally:
        shutil.rmtree(tmp, ignore_errors=True)


def main():
    names = sys.argv[1:] or sorted(os.listdir(os.path.join(HERE, "seeded")))
    with ThreadPoolExecutor(max_workers=3) as pool:
        res = list(pool.map(run, names))
    bad = 0
    for name, prop, rc, txt in res:
        ok = rc == 1
        bad += not ok
        print(f"{'caught' if ok else 'MISSED'} {name:<40} {prop} exit={rc} {txt}")
    return 1 if bad else 0


if __name__ == "__main__":
    sys.exit(main())
