#!/usr/bin/env python3
"""Mutation canaries: apply each small patch of /verif/mutants/canaries.json to a scratch copy of /repo/repid
(mktemp, removed afterwards), run the property's quick check with --repo, and report whether it is detected.
This tests the machinery; it is not part of any proof.   usage: canary.py [ID-substring ...]"""
import json
import os
import shutil
import subprocess
import sys
import tempfile

HERE = os.path.dirname(os.path.dirname(os.path.abspath(__file__)))


def run(m, repo="/repo"):
    d = tempfile.mkdtemp(prefix="pyvc_canary_")
    try:
        shutil.copytree(os.path.join(repo, "repid"), os.path.join(d, "repid"))
        p = os.path.join(d, m["file"])
        s = open(p).read()
        if m["find"] not in s:
            return "STALE", "pattern not found"
        s = s.replace(m["find"], m["replace"], 1)
        open(p, "w").write(s)
        env = dict(os.environ, PYVC_NO_EVIDENCE="1")
        out = subprocess.run(["python3-vt", "-m", "pyvc", "check", m["property"], "--repo", d], cwd=HERE,
                             capture_output=True, text=True, env=env)
        viol = [l for l in out.stdout.splitlines() if l.startswith("  failed obligation") or l.startswith("VIOLATION")]
        return out.returncode, "\n".join(viol[:6])
    finally:
        shutil.rmtree(d, ignore_errors=True)


def main():
    ms = json.load(open(os.path.join(HERE, "mutants", "canaries.json")))
    sel = sys.argv[1:]
    ok = True
    from concurrent.futures import ThreadPoolExecutor
    todo = [m for m in ms if not sel or any(s in m["id"] or s == m["property"] for s in sel)]
    with ThreadPoolExecutor(max_workers=int(os.environ.get("CANARY_JOBS", "4"))) as pool:
        outs = list(pool.map(run, todo))
    for m, (rc, txt) in zip(todo, outs):
        want = 0 if m.get("harmless") else 1
        good = rc == want
        ok &= good
        print(f"{'ok  ' if good else 'MISS'} {m['id']:<40} {m['property']} exit={rc} (want {want})")
        if not good or os.environ.get("V"):
            print("     " + txt.replace("\n", "\n     "))
    return 0 if ok else 1


if __name__ == "__main__":
    sys.exit(main())
