#!/usr/bin/env python3
"""Writes /verif/baseline.json from the evidence files of a green run on the unchanged tree: per property and function,
the obligations that were discharged and the hashes of the function bodies they were generated from.  pyvc.report uses it
to tell 'the solver got slower on unchanged code' (undecided) from 'the changed code no longer admits the proof'
(VIOLATION ... no-failing-input-found).  Run by hand after `tools/run_all.sh`; never at check time."""
import glob, json, os
HERE = os.path.dirname(os.path.dirname(os.path.abspath(__file__)))
out = {}
for p in sorted(glob.glob(os.path.join(HERE, "evidence", "C*.json"))):
    ev = json.load(open(p))
    cov = ev["coverage"]
    if cov.get("exit_code") != 0:
        raise SystemExit(f"{p}: exit code {cov.get('exit_code')} - baseline only from a green run")
    fns = {f["fn"]: {"shas": f.get("body_shas", []), "discharged": []} for f in cov["functions_under_contract"]}
    for o in cov["per_obligation"]:
        if o["status"] == "discharged" and o["fn"] in fns:
            fns[o["fn"]]["discharged"].append(o["obligation"])
    out[ev["property_id"]] = fns
json.dump(out, open(os.path.join(HERE, "baseline.json"), "w"), indent=0, sort_keys=True)
print("baseline:", {k: sum(len(f["discharged"]) for f in v.values()) for k, v in out.items()})
