#!/usr/bin/env python3
"""Regenerates /verif/MANIFEST.json from the table below (keeps it schema-valid)."""
import json
import os

HERE = os.path.dirname(os.path.dirname(os.path.abspath(__file__)))
PROPS = [json.loads(l)["id"] for l in open(os.path.join(HERE, "properties.jsonl"))]

# property -> (technique, level text, level note)
CLAIMED = {
    "C19": ("deductive verification of the real function bodies against sidecar contracts (AST->z3 VCs, cvc5 fallback), "
            "spec-function equality + monotonicity lemma, pow2 lemmas by induction",
            "Proof, for all integer/microsecond inputs, that the default back-off equals its spec function, stays in "
            "[min,max], never overflows and is monotone; that the next execution time lies on the period grid with "
            "now < next <= now+period or equals deferred_until; and that all four is_overdue are `now > timestamp+ttl`.",
            "Trusted: pyvc translator, z3/cvc5, CPython integer-microsecond datetime arithmetic, monotone wall clock. "
            "Cron branch excluded (croniter absent)."),
}
NOT_APPLICABLE_REASON = "check not built yet (work in progress; see DESIGN.md section 5 for the planned contracts)"


def main():
    checks = []
    for p in PROPS:
        if p not in CLAIMED:
            continue
        tech, text, note = CLAIMED[p]
        checks.append({
            "property_id": p,
            "quick_cmd": f"python3-vt -m pyvc check {p} --tier quick",
            "thorough_cmd": f"python3-vt -m pyvc check {p} --tier thorough",
            "evidence_file": f"/verif/evidence/{p}.json",
            "replay_cmd_template": "python3-vt -m pyvc replay {path}",
            "engine": "pyvc",
            "level_claimed": {"category": "proof", "text": text, "design_ref": f"DESIGN.md section 5, {p}"},
            "level_note": note,
            "technique": tech,
        })
    m = {
        "version": 1,
        "setup_cmd": "true",
        "hooks": {
            "guard": "REPID_VERIF",
            "enable": "no hooks are compiled into /repo: checks read /repo sources with ast (python3-vt) and replay "
                      "counterexamples on the real code under /venv/bin/python",
            "baseline_off_cmd": "cd /repo && /venv/bin/python -m pytest -ra -q -p no:cacheprovider --timeout=900 "
                                "--continue-on-collection-errors",
            "source_commits": [],
            "add_only": True,
        },
        "engines": [{
            "name": "pyvc", "path": "/verif/pyvc", "serves_properties": sorted(CLAIMED),
            "kind_free_text": "contract-based deductive verifier for the Python subset repid uses: sidecar contracts "
                              "(/verif/contracts), AST->z3 verification-condition generation over the real source "
                              "re-read on every run, modular calls by contract, cvc5 as second back end, native replay "
                              "of counterexamples (/verif/replaylib)",
        }],
        "checks": checks,
        "not_applicable": [{"property_id": p, "reason": NOT_APPLICABLE_REASON} for p in PROPS if p not in CLAIMED],
        "notes": "Exit codes of every check: 0 held, 1 VIOLATION (+replay file), 2 UNDECIDED, 3 CHECKER-ERROR.",
    }
    json.dump(m, open(os.path.join(HERE, "MANIFEST.json"), "w"), indent=1)


if __name__ == "__main__":
    main()
