#!/usr/bin/env python3
"""Regenerates /verif/MANIFEST.json from the table below (keeps it schema-valid)."""
import json
import os

HERE = os.path.dirname(os.path.dirname(os.path.abspath(__file__)))
PROPS = [json.loads(l)["id"] for l in open(os.path.join(HERE, "properties.jsonl"))]

# property -> (technique, level text, level note)
CLAIMED = {
    "C19": ("deductive verification of the real function bodies against sidecar contracts (AST->z3 VCs, cvc5 fallback), "
            "spec-function equality + monotonicity lemma, pow2 lemmas by induction",
            "Proof, for all integer/microsecond inputs, that the default back-off equals its spec function, stays in "
            "[min,max], never overflows and is monotone; that the next execution time lies on the period grid with "
            "now < next <= now+period or equals deferred_until; and that all four is_overdue are `now > timestamp+ttl`.",
            "Trusted: pyvc translator, z3/cvc5, CPython integer-microsecond datetime arithmetic, monotone wall clock. "
            "Cron branch excluded (croniter absent)."),
    "C04": ("deductive verification of report_to_broker, _prepare_retry, Message/MessageDependency.retry/force_retry "
            "against contracts over a ghost trace of broker calls; chain lemma over the contracts",
            "Proof that a failed execution is requeued iff already_tried < max_amount, with the counter incremented by "
            "exactly one, every other parameter unchanged and next_execution_time = now + policy(already_tried+1); "
            "retry() refuses (leaving the handle usable) once the budget is spent, force_retry() does not.",
            "Broker = interface contract (one call = one disposition); user policy = total deterministic function; "
            "redelivery timing is C05/C01."),
    "C02": ("deductive verification of actor_run/process/report_to_broker/set_result_bucket and the message API "
            "against contracts: exactly-one-disposition as ghost-trace postcondition on every path incl. exceptional",
            "Proof that for every outcome of user code (return, any Exception, timeout, _NoAction) process applies "
            "exactly one terminal broker call chosen by the ladder, before any result store, none after an eager "
            "response, and that no Exception escapes actor_run.",
            "User actors touch the broker only via MessageDependency (assumed contract ActorFn.__call__); converters, "
            "dependency providers, asyncio.gather/wait_for by assumed contracts; liveness not decided."),
    "C16": ("deductive verification of the six Message actions and the MessageDependency eager actions: guard order, "
            "single-use flag set only after the broker call returned, _NoAction as the only exit after the action",
            "Proof of the handle state machine for all categories, retry states and broker failures; eager actions "
            "never return normally and no callback failure escapes after the broker action.",
            "Insert position of the lazily placed result-store callable is not modelled; handles not shared across tasks."),
    "C13": ("deductive verification of set_result_bucket, MessageDependency.set_result/set_exception and their store "
            "closures, process ordering (disposition before store), result broker selection",
            "Proof that exactly one bucket with the execution's outcome fields is stored under result.id_ iff results "
            "are enabled, after the disposition, and that a failing store leaves the disposition untouched.",
            "Bucket brokers by interface contract; Redis SET EXAT expiry not modelled."),
    "C06": ("deductive verification of _prepare_reschedule, compute_next_execution_time, report_to_broker reschedule "
            "branch, Message.reschedule, wait_until: cadence clause from the property statement",
            "Proof that a completed iteration of a defer_by job yields exactly one requeue with counter 0, TTL clock "
            "restarted, next time strictly in the future, at most one period ahead, and at least one period after the "
            "previously scheduled time; first run honours deferred_until.",
            "cron excluded (croniter absent); delivery latency not decided."),
    "C09": ("deductive verification of _run_consumer/_task_callback with a monitor invariant over the semaphore and ghost "
            "counters, checked at every await (yield points) and stable under the declared rely",
            "Proof that in-flight processing tasks = limit - semaphore value - reserved slots at every await and after "
            "every done-callback, hence never more than tasks_limit; every spawn is dominated by one acquire; the "
            "callback releases exactly once and never raises; and that no actor invocation is still in progress when "
            "_Processor.actor_run returns (ghost count of open invocations), which is what links processing tasks to invocations.",
            "asyncio Semaphore/Event/Task and wait_for (cancels and awaits on timeout) by assumed contracts; cooperative scheduling (switch only at await); "
            "liveness clauses (resume, never stalls, eventually executed) are not decided."),
    "C10": ("deductive verification of max_tasks_hit, _task_callback, _run_consumer loop invariant started <= max_tasks, "
            "run_one_queue (stop event cancels consumption)",
            "Proof of the limit formula, of 'stop event set exactly when the limit is hit' in the done-callback and of "
            "run_one_queue ending consumption; the loop invariant 'started <= M' FAILS on the tree (known finding F10).",
            "Termination ('returns once those M have finished') not decided; RunWorkerOnEnqueueModifier not under contract."),
    "C20": ("deductive verification of handle_request (z3 strings) and data_received for all byte strings, status "
            "getter/setter, run_one_queue's status flip",
            "Proof that the status line/body/Content-Length are those of '<code> <NAME>' for GET on the endpoint and "
            "'404 Not Found' otherwise; that data_received either writes once then closes or raises a ValueError "
            "before writing, never touching the status; that the runner only ever flips OK->UNHEALTHY, and only for a "
            "failed consumer task.",
            "Sockets, create_server, many connections and fragmentation are outside the subset (assumed asyncio behaviour)."),
    "C17": ("deductive verification of _middleware_wrapper.__call__/call_set_context (ghost signal trace, conditional "
            "effects), the subscriber wrapper (quantified postcondition over the kwargs map), emitter setter/getter per "
            "wrapped class, Connection.__post_init__, _Processor.__init__ (frame)",
            "Proof that a wrapped call emits before(name, args-by-name), the call with the inside flag set in a child "
            "context, after(same + result) - or only the call when nested / no emitter - and nothing after an "
            "exception; that a subscriber gets exactly the signal arguments it declares and its Exceptions are "
            "swallowed; that emitters are written only on the connection's own objects (FAILS for _Processor: F17).",
            "emit_signal/gather, asyncify, _WrappedABC.__new__ (one wrapper per instance) by assumed contracts; timing "
            "of slow subscribers not decided."),
    "C01": ("deductive verification per broker operation against an abstract per-element view (waiting/delayed/held/dead) "
            "with quantified loop invariants; cancellation explored at every await (yield points)",
            "Proof for the in-memory broker that ack removes, nack dead-letters, enqueue places the message in exactly "
            "one container chosen by its due time, requeue replaces the held message, that a cancelled single-effect "
            "operation leaves the old or the new state, and that queue_declare leaves an existing queue (every message in "
            "all four places) and every other queue as they were while flush/delete touch the named queue only; "
            "reject (F01a) and a cancelled requeue (F01b) are known findings.",
            "Well-behaved clients (distinct ids, actions only on held messages) are preconditions; one queue object per "
            "operation; interleaving with other tasks beyond cancellation is not explored; Redis/RabbitMQ brokers: see level note "
            "in evidence (command-model contracts where built)."),
    "C05": ("deductive verification of in-memory enqueue/__consume_normal, wait_until, Redis wait_timestamp/unix_time "
            "(real arithmetic) and in-memory __update_delayed (three nested loops, ghost witness map)",
            "Proof that a message with a due time is placed only in the delayed container, that NORMAL consumption reads "
            "only the waiting queue, and that a Redis score can only be passed by a consumer clock at most 1 ms before the "
            "due time (after fix F05). __update_delayed is proved too (nothing moves before its due time, everything overdue moves, an entry leaves the delayed map exactly when its messages were moved); it also keeps the single-copy invariant used by C14. The former bounded stand-in runs as an additional native check only.",
            "Floats as exact reals; latency/liveness clauses not decided; RabbitMQ TTL is server side."),
    "C11": ("deductive verification of Router.actor / include_router (maps of sets, quantified index invariant) and of the "
            "in-memory consumer's topic filter",
            "Proof that a registration is stored under its name and served by its queue, that include_router yields the "
            "union with the later registration winning, and that a foreign, unexpired head message is rotated to the back "
            "unchanged and never delivered or dead-lettered. The Redis take path hands out only names whose topic part (up to the ':' delimiter) is one of the consumer's topics. 'No stale topic' holds for actor() and include_router() after fix F11 "
            "(Router._forget_topic under contract: the name leaves its old queue, a queue without topics is dropped).",
            "Other workers / processes are outside the model."),
    "C12": ("deductive verification of the four is_overdue, the in-memory NORMAL/DEAD consumption and the Redis consumer's "
            "delivery decision",
            "Proof that an expired head is dead-lettered and not delivered, a live one is never dead-lettered, dead letters "
            "are handed out oldest first, and (after fix F12) the Redis consumer nacks exactly the overdue NORMAL messages and "
            "returns everything else it took.",
            "RabbitMQ dead-letter routing is server side."),
    "C14": ("deductive verification of in-memory consume (yield invariant: a taken message is held before any await), "
            "finish, ack",
            "Proof that consume holds exactly the message it returns without disturbing other holders, with no await between "
            "taking and holding, under cancellation at every await; finish() returning other consumers' messages is F14a.",
            "'had no holder before' relies on the container-disjointness invariant, which is not proved; Redis take path and "
            "RabbitMQ exclusivity: see evidence."),
    "C15": ("deductive verification of in-memory enqueue (tail), __consume_normal (head, rotation), __consume_delayed "
            "(earliest due time, list order), __update_delayed (due buckets enter as blocks, in order), the Redis enqueue / "
            "return side (LPUSH / RPUSH) and the Redis window scan __fetch_message_name against the Redis list itself",
            "Proof that waiting messages enter at the tail and leave from the head, a rotated foreign head keeps the relative "
            "order of the others, delayed inspection returns the first message of the minimal due time, the messages of one due "
            "time enter the waiting queue in enqueue order, and (after fix F15) the Redis consumer takes the matching name nearest "
            "the tail for every list length and window count and gives up only when nothing matches.",
            "Order among different due times that become due together is the iteration order of the dict; Redis delayed-set order "
            "beyond the first window and RabbitMQ ordering are server side / not under contract. In-memory reject (F01a) is a known finding."),
    "C07": ("deductive verification of round-trip harnesses that compose the REAL encode/decode bodies (JSON text abstract, "
            "IEEE error model for durations), Redis key constructors/parsers over z3 strings with the validators' regexes, "
            "bucket marker, Job._construct_*, Job.enqueue, get_payload, RabbitMQ on_new_message",
            "Proof that decode(encode(x)) == x for Parameters/Delay/Result/Retries/ArgsBucket/ResultBucket (durations up to 100 "
            "years; the same proof fails at 300 years), that every name accepted by VALID_NAME/VALID_ID survives the Redis "
            "encodings, that a job's fields map one-to-one into key/parameters/payload reference, and that the RabbitMQ consumer "
            "hands over the published id, topic, queue and priority (after fix F07).",
            "json.loads/JSONEncoder text, isoformat/fromisoformat and uuid4 by assumed contracts; pydantic arguments delegated; "
            "Redis enqueue <-> details fetch not yet composed."),
    "C03": ("deductive verification with cancellation explored at every await (yield points): _process_with_event, "
            "_run_consumer, stop_wait_and_cancel, finish_gracefully, in-memory requeue/ack/nack/reject/consume/finish",
            "Proof that the stop event precedes the grace period and the cancel event follows it, that a processing task "
            "raced against cancellation ends with at least one disposition and no reject after completion (fix F03a), and "
            "that cancelled in-memory single-effect operations leave the old or new state. Four clauses fail on the tree and "
            "are known findings: F01b (cancelled requeue), F03d (cancelled _run_consumer drops its message), F03e "
            "(cancel after disposition), F14a (finish returns others' messages).",
            "Real-time bound, Redis maintenance/background consumer, Worker.run call order are not decided."),
    "C08": ("deductive verification of BasicConverter.__init__/convert_inputs, PydanticConverter.__init__/convert_inputs, "
            "DefaultConverter.__new__ (real bodies; signatures as arrays of parameter records, insertion-ordered dicts, value "
            "comprehensions as loops with sidecar invariants), two output round-trip harnesses, and a lemma over the four "
            "contracts (proved through ten intermediate cuts) that both converters produce equal arguments",
            "Proof that BasicConverter derives from the signature the positional-only names in order with their defaults, the "
            "other plain parameters by name, the dependency parameters and the catch-all flags; that convert_inputs gives each "
            "parameter the payload entry of its name or else its default, sends unmatched entries only to a catch-all, never "
            "passes a made-up value and raises exactly when a required argument is missing (fix F08a); that PydanticConverter "
            "builds an input model with exactly the non-dependency parameters (required iff no default), refuses *args/**kwargs, "
            "and fails exactly on invalid text or a missing required field so that a job without arguments runs (fix F08b); that "
            "DefaultConverter selects pydantic 2, then pydantic 1, then the basic converter; that an untyped return value decodes "
            "to itself; and that on every payload with a JSON object both converters return equal positional and keyword "
            "arguments. One clause is a known finding: F08c (a positional spill in front of positional-or-keyword parameters).",
            "pydantic (create_model, model_validate_json, Field) by assumed contracts: field set, required-iff-Field(), values of "
            "the annotated types returned unchanged; typed outputs (model_dump_json) delegated to pydantic; JSON text abstract "
            "(C07's model); the actor call fn(*args, **kwargs) itself (Python's binding) is not under contract except for the "
            "spill clause; parameter names starting with '__' and Field() objects as declared defaults are excluded by precondition."),
    "C18": ("deductive verification of Depends.__init__/override/_update_subdependencies (quantified invariant over the "
            "signature as an array of parameter records, with a ghost witness map and a proved cut), Depends.resolve and the "
            "dependency part of actor_run",
            "Proof that the sub-dependency map is exactly {name: declared dependency} over the provider's positional-or-keyword "
            "and keyword-only parameters, that positional-only dependencies and default-less plain parameters are rejected at "
            "declaration, that override re-derives the map, that resolve creates one resolution per sub-dependency and calls the "
            "provider exactly once returning its value, and that any provider failure fails the execution (actor_run).",
            "inspect.signature / get_dependency / asyncify / asyncio.gather by assumed contracts (deterministic, ordered); value flow "
            "through gather and dict(zip()) is not modelled; run_in_process not decided."),
}
NOT_APPLICABLE_REASON = "no contract built"


def main():
    checks = []
    for p in PROPS:
        if p not in CLAIMED:
            continue
        tech, text, note = CLAIMED[p]
        checks.append({
            "property_id": p,
            "quick_cmd": f"python3-vt -m pyvc check {p} --tier quick",
            "thorough_cmd": f"python3-vt -m pyvc check {p} --tier thorough",
            "evidence_file": f"/verif/evidence/{p}.json",
            "replay_cmd_template": "python3-vt -m pyvc replay {path}",
            "engine": "pyvc",
            "level_claimed": {"category": "proof", "text": text, "design_ref": f"DESIGN.md section 5, {p}"},
            "level_note": note,
            "technique": tech,
        })
    m = {
        "version": 1,
        "setup_cmd": "true",
        "hooks": {
            "guard": "REPID_VERIF",
            "enable": "no hooks are compiled into /repo: checks read /repo sources with ast (python3-vt) and replay "
                      "counterexamples on the real code under /venv/bin/python",
            "baseline_off_cmd": "cd /repo && /venv/bin/python -m pytest -ra -q -p no:cacheprovider --timeout=900 "
                                "--continue-on-collection-errors",
            "source_commits": [],
            "add_only": True,
        },
        "engines": [{
            "name": "pyvc", "path": "/verif/pyvc", "serves_properties": sorted(CLAIMED),
            "kind_free_text": "contract-based deductive verifier for the Python subset repid uses: sidecar contracts "
                              "(/verif/contracts), AST->z3 verification-condition generation over the real source "
                              "re-read on every run, modular calls by contract, cvc5 as second back end, native replay "
                              "of counterexamples (/verif/replaylib)",
        }],
        "checks": checks,
        "not_applicable": [{"property_id": p, "reason": NOT_APPLICABLE_REASON} for p in PROPS if p not in CLAIMED],
        "notes": "Exit codes of every check: 0 held, 1 VIOLATION (+replay file), 2 UNDECIDED, 3 CHECKER-ERROR.",
    }
    json.dump(m, open(os.path.join(HERE, "MANIFEST.json"), "w"), indent=1)


if __name__ == "__main__":
    main()
