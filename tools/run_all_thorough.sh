#!/bin/bash
# runs every claimed check in the thorough tier, three at a time; one line per property
cd /verif
props=$(python3 -c "import json; print(' '.join(c['property_id'] for c in json.load(open('MANIFEST.json'))['checks']))")
mkdir -p out/runall_thorough
for p in $props; do
  ( /usr/bin/time -f "%es" timeout 7200 python3-vt -m pyvc check $p --tier thorough > out/runall_thorough/$p.txt 2>&1; echo "$p exit=$? $(grep '^property' out/runall_thorough/$p.txt | cut -c1-110) $(grep 'crosscheck\]' out/runall_thorough/$p.txt | cut -c1-120)" ) &
  while [ $(jobs -r | wc -l) -ge 3 ]; do sleep 1; done
done
wait
