"""Native demonstration for F11 (C11), include_router variant, on the repository at argv[1] (default /repo): a name
registered on queue `a` in one router and on queue `b` in an included router.  After include_router the actor table says
queue `b`, yet topics_by_queue still lists the name under `a`: a worker keeps consuming that topic from `a`.
exit 1 = stale entry present, 0 = not reproduced."""
import sys
repo = sys.argv[1] if len(sys.argv) > 1 else "/repo"
sys.path.insert(0, repo)
from repid import Router

main, other = Router(), Router()


@main.actor(name="job", queue="a")
async def job_v1():
    return 1


@other.actor(name="job", queue="b")
async def job_v2():
    return 2


main.include_router(other)
stale = [(q, t) for q, ts in main.topics_by_queue.items() for t in ts if main.actors[t].queue != q]
print("actor table:", {t: a.queue for t, a in main.actors.items()}, "topics_by_queue:", dict(main.topics_by_queue), "stale:", stale)
sys.exit(1 if stale else 0)
