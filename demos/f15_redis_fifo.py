"""Native demonstration for F15 (C15): the real Redis broker/consumer of the repository at argv[1] (default /repo),
driven over replaylib/fake_redis.py.  Enqueue m01..mNN on one queue and priority, consume them all with one
consumer: the order must be the enqueue order, for backlogs shorter and longer than the fetch window (10).
exit 1 = FIFO violated, 0 = FIFO kept."""
import asyncio, os, sys
repo = sys.argv[1] if len(sys.argv) > 1 else "/repo"
sys.path.insert(0, repo)
sys.path.insert(0, os.path.join(os.path.dirname(os.path.abspath(__file__)), ".."))
from replaylib.fake_redis import FakeRedis
from repid.connections.redis.message_broker import RedisMessageBroker
from repid.data._key import RoutingKey
from repid.data._parameters import Parameters


async def run(n):
    b = RedisMessageBroker("redis://localhost:1")
    b.conn = FakeRedis()
    for i in range(1, n + 1):
        await b.enqueue(RoutingKey(id_=f"m{i:02d}", topic="t", queue="q", priority=5), "", Parameters())
    c = b.get_consumer("q", {"t"})
    got = []
    for _ in range(n):
        m = await c.consume_or_none() if hasattr(c, "consume_or_none") else None
        if m is None:
            break
        got.append(m[0].id_)
        await b.ack(m[0])
    return got


bad = 0
for n in (3, 12, 25):
    got = asyncio.run(run(n))
    want = [f"m{i:02d}" for i in range(1, n + 1)]
    print(f"backlog {n}: delivered {got[:6]}{'...' if n > 6 else ''}  {'FIFO' if got == want else 'NOT FIFO'}")
    bad |= got != want
sys.exit(1 if bad else 0)
