"""Native demonstration for F08c (C08) on the repository at argv[1] (default /repo): BasicConverter, an actor
`def f(a, *rest)` and a payload with an entry that matches no parameter.  The extra entry must reach the catch-all `rest`;
instead it is passed positionally in front of the keyword `a`, so Python binds it to `a` as well.
exit 1 = violation reproduced, 0 = not reproduced."""
import asyncio, sys
repo = sys.argv[1] if len(sys.argv) > 1 else "/repo"
sys.path.insert(0, repo)
from repid.converter import BasicConverter


async def f(a, *rest):
    return (a, rest)


args, kwargs = BasicConverter(f).convert_inputs('{"a": 1, "x": 2}')
print("convert_inputs ->", args, kwargs)
try:
    out = asyncio.run(f(*args, **kwargs))
    print("actor called with a=%r rest=%r" % out)
    sys.exit(0 if out == (1, (2,)) else 1)
except TypeError as exc:
    print("actor call fails:", exc)
    sys.exit(1)
