"""Native demonstration for F08a/F08b (C08) on the repository at argv[1] (default /repo).
F08a: BasicConverter, payload lacking a parameter that has no default -> the actor must not be called with a made-up value.
F08b: PydanticConverter (the default when pydantic is installed), job enqueued without arguments, all parameters have
      defaults -> must be callable.
exit 1 = a violation was observed."""
import inspect, sys
repo = sys.argv[1] if len(sys.argv) > 1 else "/repo"
sys.path.insert(0, repo)
from repid.converter import BasicConverter, PydanticConverter

bad = 0


async def needs_b(a, /, b, c=3):
    return (a, b, c)


conv = BasicConverter(needs_b)
try:
    args, kwargs = conv.convert_inputs('{"a": 1}')
    made_up = [v for v in (*args, *kwargs.values()) if v is inspect.Parameter.empty]
    print("F08a basic, payload without `b`:", args, kwargs, "-> made-up values:", made_up)
    bad |= bool(made_up)
except Exception as exc:  # noqa: BLE001
    print("F08a basic, payload without `b`: fails before the actor is called:", type(exc).__name__, exc)


async def all_defaults(x: int = 1, y: str = "y"):
    return (x, y)


try:
    args, kwargs = PydanticConverter(all_defaults).convert_inputs("")
    print("F08b pydantic, no arguments:", args, kwargs)
except Exception as exc:  # noqa: BLE001
    print("F08b pydantic, no arguments: convert_inputs('') raises", type(exc).__name__)
    bad |= 1
sys.exit(1 if bad else 0)
